package checks

// C02 — replay determinism: same momentums in, byte-identical ledger out.
//
// A producer node P runs a seeded workload (transfers, receives, contract calls,
// blocks acknowledging old momentums, skipped slots). Followers receive exactly
// P's momentums under different delivery schedules (one by one / random batches /
// account blocks gossiped first, all or a subset, early or late / caches warmed by
// historical queries / restarts / through the RLP wire encoding). Oracle: every
// delivery is accepted, and at the end frontier hash, the whole logical key space,
// the RAW LevelDB content (every key incl. stored redo/undo patches), historical
// views at sampled heights and a battery of ledger queries are identical on all nodes.

import (
	"encoding/hex"
	"fmt"
	"math/big"
	"math/rand"
	"os"
	"sort"
	"strings"
	"time"

	g "github.com/zenon-network/go-zenon/chain/genesis/mock"
	"github.com/zenon-network/go-zenon/chain/nom"
	"github.com/zenon-network/go-zenon/common/db"
	"github.com/zenon-network/go-zenon/common/types"
	"github.com/zenon-network/go-zenon/vm/constants"
	"github.com/zenon-network/go-zenon/vm/embedded/definition"
	"github.com/zenon-network/go-zenon/wallet"

	"verif/harness/fw"
	"verif/harness/simnet"
)

func init() {
	fw.Register(&fw.Check{
		ID:    "C02",
		Level: "exploration",
		Rule: "each case is one seeded history on a real producing node (60–300 momentums of transfers, receives, embedded-contract calls incl. failing ones, blocks acknowledging momentum F−d, skipped slots) " +
			"replayed on followers under 9 delivery schedules; distinct_nontrivial counts distinct (schedule, history) pairs that contained at least one account block evaluated against a non-frontier momentum " +
			"plus distinct schedule features exercised (batch sizes, gossip modes, restart points, ack depths)",
		Cases:       c02Cases,
		Run:         c02Run,
		MinDistinct: 8,
		Assumptions: []string{
			"followers see no reorganisation (C06 covers those)",
			"the gossip variants carry exactly the producer's bytes (variants are C13's subject)",
			"logical equality is decided on present keys; raw equality additionally on every LevelDB key/value of a stopped node",
		},
	})
}

func c02Cases(tier string, seed int64) []string {
	n := 12
	if tier == "thorough" {
		n = 480
	}
	var l []string
	for i := 0; i < n; i++ {
		l = append(l, fmt.Sprintf("hist:%d", i))
	}
	ns := 2
	if tier == "thorough" {
		ns = 40
	}
	for i := 0; i < ns; i++ {
		l = append(l, fmt.Sprintf("shift:%d", i))
	}
	return l
}

// c02RunShift: verdict and effect of a user block are a function of its account chain and of the ledger as of the
// momentum it acknowledges — NOT of how far the evaluating node's frontier has moved past that momentum (a producer
// evaluates a block when it hears it, a syncing node when the confirming momentum arrives, possibly much later).
// On a long chain (> 1 h of momentums) a quiet account's send and receive are generated for EVERY acknowledged momentum
// F−d (never inserted); after the frontier moved on by k momentums every generated block is evaluated again.
func c02RunShift(c *fw.C, caseID string) {
	r := c.Rand(caseID)
	base := c.ScratchDir("c02s")
	defer os.RemoveAll(base)
	P := simnet.Open("P", base+"/P", simnet.MockGenesis(), g.PillarKeys)
	defer P.Stop()
	w := simnet.NewWorkload(rand.New(rand.NewSource(r.Int63())), P)
	Q, err := wallet.DeriveWithIndex(78, []byte("c02 quiet account seed 000000001"))
	if err != nil {
		c.Inconclusive(err.Error())
		return
	}
	P.MustProduce(2)
	_, e1 := P.Send(g.User1, types.PlasmaContract, types.QsrTokenStandard, big.NewInt(100*g.Zexp), definition.ABIPlasma.PackMethodPanic(definition.FuseMethodName, Q.Address))
	s1, e2 := P.Send(g.User1, Q.Address, types.ZnnTokenStandard, big.NewInt(1000*g.Zexp), nil)
	s2, e3 := P.Send(g.User1, Q.Address, types.ZnnTokenStandard, big.NewInt(2000*g.Zexp), nil)
	if e1 != nil || e2 != nil || e3 != nil {
		c.Inconclusive(fmt.Sprint("setup refused: ", e1, e2, e3))
		return
	}
	P.MustProduce(3)
	if _, err := P.Receive(Q, s1.Hash); err != nil {
		c.Inconclusive("setup: quiet account cannot receive: " + err.Error())
		return
	}
	P.MustProduce(1)
	first := P.Height() // Q's only block acknowledges a momentum below this height
	target := 375 + r.Intn(110)
	for int(P.Height()) < target {
		w.Step(3)
		skip := 0
		if r.Intn(9) == 0 {
			skip = 1 + r.Intn(2)
		}
		if _, err := P.Produce(skip); err != nil {
			c.Violation("producer-cannot-produce", map[string]interface{}{"height": P.Height() + 1, "err": err.Error()})
			return
		}
	}
	type probe struct {
		d     uint64
		kind  string
		block *nom.AccountBlock
		patch []byte
	}
	for _, k := range []int{1, 2, 31, 365} { // 365: the same old views are opened again more than an hour of momentums later (warm far-view caches)
		F := P.Height()
		st := P.Chain.GetFrontierMomentumStore()
		var probes []probe
		accepted0 := 0
		for d := uint64(0); F-d >= first; d++ {
			m, _ := st.GetMomentumByHeight(F - d)
			if m == nil {
				break
			}
			for _, kind := range []string{"send", "receive"} {
				tpl := &nom.AccountBlock{BlockType: nom.BlockTypeUserSend, Address: Q.Address, ToAddress: g.User2.Address, TokenStandard: types.ZnnTokenStandard, Amount: big.NewInt(1), MomentumAcknowledged: m.Identifier()}
				if kind == "receive" {
					tpl = &nom.AccountBlock{BlockType: nom.BlockTypeUserReceive, Address: Q.Address, FromBlockHash: s2.Hash, MomentumAcknowledged: m.Identifier()}
				}
				tx, err := P.Generate(tpl, Q)
				c.Eval(1)
				if err != nil {
					c.SetAdd("shift_refusals_at_generation", c05ErrClass(err))
					continue
				}
				accepted0++
				var dump []byte
				if tx.Changes != nil {
					dump = tx.Changes.Dump()
				}
				probes = append(probes, probe{d, kind, tx.Block, dump})
			}
		}
		if accepted0 < 100 {
			c.Inconclusive(fmt.Sprintf("only %d probe blocks could be generated", accepted0))
			return
		}
		// the frontier moves on (the quiet account stays quiet)
		for i := 0; i < k; i++ {
			w.Step(2)
			if _, err := P.Produce(0); err != nil {
				c.Violation("producer-cannot-produce", map[string]interface{}{"height": P.Height() + 1, "err": err.Error()})
				return
			}
		}
		for _, p := range probes {
			tx, err := P.Sup.ApplyBlock(simnet.CloneBlock(p.block))
			c.Eval(1)
			if err != nil {
				c.Violation("block-verdict-depends-on-frontier-distance "+p.kind, map[string]interface{}{"acknowledged_depth_when_generated": p.d, "frontier_moved_by": k, "distance_at_second_evaluation": p.d + uint64(k),
					"err": err.Error(), "note": "accepted when the frontier was d past its acknowledged momentum, refused at d+k with the same account chain"})
				return
			}
			var dump []byte
			if tx.Changes != nil {
				dump = tx.Changes.Dump()
			}
			if string(dump) != string(p.patch) {
				c.Violation("block-effect-depends-on-frontier-distance "+p.kind, map[string]interface{}{"acknowledged_depth_when_generated": p.d, "frontier_moved_by": k})
				return
			}
		}
		c.Count("shift_probe_blocks_evaluated_twice", len(probes))
		c.SetAdd("shift_max_distance_class", fmt.Sprintf(">=%d", (int(F-first)+k)/100*100))
		c.Distinct(fmt.Sprintf("shift k=%d chain>=%d", k, int(F)/100*100))
	}
}

// c02Siblings: blocks competing with a block the producer accepted (per case; children run cases sequentially)
var c02Siblings []c02Gossip

type c02Gossip struct {
	block    *nom.AccountBlock
	atHeight uint64 // P's frontier height when the block was accepted into P's pool
}

func c02Run(c *fw.C, caseID string) {
	c02Siblings = nil
	if strings.HasPrefix(caseID, "shift:") {
		c02RunShift(c, caseID)
		return
	}
	r := c.Rand(caseID)
	base := c.ScratchDir("c02")
	defer os.RemoveAll(base)

	P := simnet.Open("P", base+"/P", simnet.MockGenesis(), g.PillarKeys)
	defer P.Stop()
	w := simnet.NewWorkload(rand.New(rand.NewSource(r.Int63())), P)
	var gossip []c02Gossip
	deepAcks := 0
	maxDepth := uint64(0)
	inBurst := false
	P.TemplateHook = func(tpl *nom.AccountBlock) {
		// some user blocks explicitly acknowledge an older momentum F−d
		if inBurst || types.IsEmbeddedAddress(tpl.Address) || !tpl.MomentumAcknowledged.IsZero() || w.R.Intn(3) != 0 {
			return
		}
		f := P.Height()
		d := uint64(w.R.Intn(13))
		if w.R.Intn(3) != 0 {
			d = []uint64{1, 2, 4, 8}[w.R.Intn(4)] // the depths the trailing judges stand at
		}
		if d >= f {
			return
		}
		m, err := P.Chain.GetFrontierMomentumStore().GetMomentumByHeight(f - d)
		if err != nil || m == nil {
			return
		}
		tpl.MomentumAcknowledged = m.Identifier()
	}
	nMomentums := 60 + r.Intn(90)
	rq := rand.New(rand.NewSource(fw.SeedFor(c.Seed, "c02-reads/"+caseID)))
	burstAt := 15 + r.Intn(30)
	if c.Thorough() {
		nMomentums = 120 + r.Intn(180)
	}
	// record every block P accepts (user blocks and the contract receives its pillars generate)
	onBlock := func(b *nom.AccountBlock, err error) {
		if err != nil {
			return
		}
		gossip = append(gossip, c02Gossip{block: b, atHeight: P.Height()})
		if d := P.Height() - b.MomentumAcknowledged.Height; d > 0 && !types.IsEmbeddedAddress(b.Address) {
			deepAcks++
			if d > maxDepth {
				maxDepth = d
			}
			c.SetAdd("ack_depths", fmt.Sprint(d))
		}
	}
	// trailing judges: T_d stays d momentums behind the producer. A user block that acknowledges momentum F−d is
	// re-evaluated on T_d, whose FRONTIER is exactly the acknowledged momentum: acceptance and the resulting change
	// set must be the same as on the producer (the outcome is a function of the ledger as of the acknowledged
	// momentum, not of whatever the frontier happened to be)
	depths := []uint64{1, 2, 4, 8}
	trail := map[uint64]*simnet.Node{}
	for _, d := range depths {
		trail[d] = simnet.Open(fmt.Sprintf("T%d", d), fmt.Sprintf("%s/T%d", base, d), simnet.MockGenesis(), nil)
		defer trail[d].Stop()
	}
	judgeFailed := false
	judge := func(b *nom.AccountBlock, patch db.Patch) {
		if judgeFailed || types.IsEmbeddedAddress(b.Address) {
			return
		}
		d := P.Height() - b.MomentumAcknowledged.Height
		T := trail[d]
		if T == nil || T.Height() != b.MomentumAcknowledged.Height {
			return
		}
		if T.Chain.GetFrontierAccountStore(b.Address).Identifier() != b.Previous() {
			c.Count("trailing_judge_skipped_predecessor_not_yet_known", 1)
			return
		}
		want := []byte(nil)
		if patch != nil {
			want = patch.Dump()
		}
		tx, err := T.Sup.ApplyBlock(simnet.CloneBlock(b))
		c.Eval(1)
		c.Count("blocks_re_evaluated_at_their_acknowledged_momentum", 1)
		if err != nil {
			judgeFailed = true
			c.Violation("block-accepted-at-frontier-is-refused-as-of-its-acknowledged-momentum", map[string]interface{}{"err": err.Error(), "ack_depth": d, "block_type": b.BlockType, "address": b.Address.String(), "height": b.Height, "recent_actions": w.Log})
			return
		}
		// compare what the two pools hold for the block (the pool appends its own bookkeeping to the change set)
		ins := T.Chain.AcquireInsert("c02 judge")
		ierr := T.Chain.AddAccountBlockTransaction(ins, tx)
		ins.Unlock()
		var got []byte
		if gp := T.Chain.GetPatch(b.Address, b.Identifier()); gp != nil {
			got = gp.Dump()
		}
		if ierr != nil || string(got) != string(want) {
			judgeFailed = true
			c.Violation("block-effect-at-frontier-differs-from-effect-as-of-its-acknowledged-momentum", map[string]interface{}{"ack_depth": d, "block_type": b.BlockType, "address": b.Address.String(), "height": b.Height, "insert_err": fmt.Sprint(ierr)})
			return
		}
	}
	P.OnBlock = func(b *nom.AccountBlock, patch db.Patch, err error) {
		if err == nil {
			judge(b, c02PoolPatch(P, b))
		}
		onBlock(b, err)
	}
	for i := 0; i < nMomentums; i++ {
		w.Step(6)
		// plasma edge: a fresh account gets its first plasma fused and its first funds at momentum ~10; a few momentums
		// later it submits receives that acknowledge momentums from BEFORE the fusion took effect (it had no plasma
		// then: must be refused) and from after it
		if i == 10 {
			_, _ = P.Send(g.User1, types.PlasmaContract, types.QsrTokenStandard, big.NewInt(20*g.Zexp), definition.ABIPlasma.PackMethodPanic(definition.FuseMethodName, g.User8.Address))
			_, _ = P.Send(g.User1, g.User8.Address, types.ZnnTokenStandard, big.NewInt(5*g.Zexp), nil)
			_, _ = P.Send(g.User1, g.User8.Address, types.ZnnTokenStandard, big.NewInt(6*g.Zexp), nil)
		}
		if i == 13 || i == 14 || i == 16 {
			hs := w.Unreceived(g.User8.Address, 4)
			for _, d := range []uint64{4, 2, 1, 0} {
				if len(hs) == 0 {
					break
				}
				m, _ := P.Chain.GetFrontierMomentumStore().GetMomentumByHeight(P.Height() - d)
				if m == nil {
					continue
				}
				first, err := P.Submit(&nom.AccountBlock{BlockType: nom.BlockTypeUserReceive, Address: g.User8.Address, FromBlockHash: hs[0], MomentumAcknowledged: m.Identifier()}, g.User8)
				c.SetAdd("plasma_edge_receive_outcomes", fmt.Sprintf("ack_depth=%d accepted=%v", d, err == nil))
				if err == nil {
					hs = hs[1:]
				}
				if err == nil && first.Height == 1 {
					// the very first block of the account gets a sibling too (same send received with twice the plasma):
					// followers of one schedule hear it before the momentum that confirms its twin
					if tx, gerr := P.Generate(&nom.AccountBlock{BlockType: nom.BlockTypeUserReceive, Address: g.User8.Address, FromBlockHash: first.FromBlockHash, Height: 1,
						MomentumAcknowledged: first.MomentumAcknowledged, FusedPlasma: first.FusedPlasma * 2}, g.User8); gerr == nil && tx != nil && tx.Block.Hash != first.Hash {
						c02Siblings = append(c02Siblings, c02Gossip{block: tx.Block, atHeight: P.Height()})
						c.Count("competing_siblings_created_for_the_first_block_of_an_account", 1)
					}
				}
			}
		}
		if i == burstAt {
			// a burst of calls to three contracts, all confirmed by one momentum: the pillar generates more receives
			// than the next momentum can hold, so the rest is confirmed one or more momentums later and every follower
			// applies those receives at a frontier that is PAST the momentum they acknowledge. The called methods read
			// momentum-level state (frontier height / timestamp → fusion expiration, stake start time).
			users := simnet.DefaultUsers()
			okCalls := 0
			inBurst = true
			for k := 0; k < 600 && okCalls < 130; k++ {
				u := users[k%len(users)]
				var err error
				switch (k / len(users)) % 3 {
				case 0:
					_, err = P.Send(u, types.PlasmaContract, types.QsrTokenStandard, big.NewInt(10*g.Zexp), definition.ABIPlasma.PackMethodPanic(definition.FuseMethodName, users[(k+1)%len(users)].Address))
				case 1:
					_, err = P.Send(u, types.StakeContract, types.ZnnTokenStandard, big.NewInt(1*g.Zexp), definition.ABIStake.PackMethodPanic(definition.StakeMethodName, int64(constants.StakeTimeUnitSec)))
				default:
					_, err = P.Send(u, types.AcceleratorContract, types.ZnnTokenStandard, big.NewInt(1), definition.ABIAccelerator.PackMethodPanic(definition.DonateMethodName))
				}
				if err == nil {
					okCalls++
				} else {
					c.SetAdd("contract_burst_refusals", fmt.Sprintf("%d:%s", (k/len(users))%3, c05ErrClass(err)))
				}
			}
			inBurst = false
			c.Count("contract_burst_calls_accepted", okCalls)
		}
		if r.Intn(20) == 0 {
			// a burst above the per-momentum limit: some blocks wait in the producer's pool for a later momentum,
			// so the producer evaluated them at an older frontier than the follower will have when it applies them
			for k := 0; k < 110+r.Intn(40); k++ {
				w.One()
			}
			c.Count("bursts_above_momentum_limit", 1)
		}
		// a user double-signs: the last user block the producer accepted in this round gets a SIBLING (same account, same
		// height, different content, twice the plasma → it wins the pool's priority rule). The producer never hears of
		// it; followers of one schedule do, before the momentum that confirms the weaker twin arrives.
		if rq.Intn(3) == 0 && len(gossip) > 0 {
			for gi := len(gossip) - 1; gi >= 0 && gossip[gi].atHeight == P.Height(); gi-- {
				b1 := gossip[gi].block
				if types.IsEmbeddedAddress(b1.Address) || b1.FusedPlasma == 0 || b1.Difficulty != 0 {
					continue
				}
				if P.Chain.GetFrontierAccountStore(b1.Address).Identifier() != b1.Identifier() {
					break // not the account's last block
				}
				inBurst = true
				tx, err := P.Generate(&nom.AccountBlock{BlockType: nom.BlockTypeUserSend, Address: b1.Address, ToAddress: g.User2.Address, TokenStandard: types.ZnnTokenStandard, Amount: big.NewInt(1),
					Height: b1.Height, PreviousHash: b1.PreviousHash, MomentumAcknowledged: b1.MomentumAcknowledged, FusedPlasma: b1.FusedPlasma * 2, Data: []byte("sibling")}, simnet.KeyFor(b1.Address))
				inBurst = false
				if err == nil && tx != nil && tx.Block.Hash != b1.Hash {
					c02Siblings = append(c02Siblings, c02Gossip{block: tx.Block, atHeight: P.Height()})
					c.Count("competing_siblings_created", 1)
				}
				break
			}
		}
		skip := 0
		if r.Intn(7) == 0 {
			skip = 1 + r.Intn(3)
		}
		if _, err := P.Produce(skip); err != nil {
			c.Violation("producer-cannot-produce", map[string]interface{}{"height": P.Height() + 1, "err": err.Error(), "log": w.Log})
			return
		}
		// the producer also serves read-only requests while it works (own PRNG): answering them must not change what
		// it produces afterwards — if it did, the followers (which are not asked at that moment) would disagree
		if rq.Intn(9) == 0 {
			_ = c02QueriesSeeded(P, rq.Int63())
			func() {
				defer func() { _ = recover() }()
				pr := P.Cons.FrontierPillarReader()
				cur := pr.EpochTicker().ToTick(*P.Frontier().Timestamp)
				_, _ = pr.EpochStats(cur)
				_, _ = pr.GetPillarWeights()
				_, _ = P.Cons.GetMomentumProducer(P.NextSlot(rq.Intn(70)))
			}()
			c.Count("read_only_request_rounds_served_by_the_producer", 1)
		}
		for _, d := range depths {
			if T := trail[d]; P.Height() > d && T.Height() < P.Height()-d {
				if idx, err := T.InsertChain(simnet.CloneBatch(P.Range(T.Height()+1, P.Height()-d))); err != nil {
					c.Violation("follower-refuses-producers-momentum trailing", map[string]interface{}{"err": err.Error(), "index": idx, "depth": d})
					return
				}
			}
		}
	}
	P.OnBlock = nil
	top := P.Height()
	// what the followers will face: contract receives confirmed by a momentum that is more than one above the momentum
	// they acknowledge (applied at a frontier past their acknowledged momentum)
	for h := uint64(2); h <= top; h++ {
		if d := P.Detailed(h); d != nil {
			for _, b := range d.AccountBlocks {
				if b.BlockType == nom.BlockTypeContractReceive && h-1 > b.MomentumAcknowledged.Height {
					c.Count("contract_receives_applied_past_their_acknowledged_momentum", 1)
					c.SetAdd("contract_receive_frontier_distance", fmt.Sprint(h-1-b.MomentumAcknowledged.Height))
				}
			}
		}
	}
	c.Count("momentums_produced", int(top-1))
	c.Count("account_blocks_accepted_by_producer", len(gossip))
	c.Count("blocks_acknowledging_older_momentum", deepAcks)
	for k, v := range w.Accepted {
		c.SetAdd("workload_actions_accepted", k)
		_ = v
	}
	if caseID == "hist:0" {
		acc := map[string]int{}
		for k, v := range w.Accepted {
			acc[k] = v
		}
		c.Sample(map[string]interface{}{"case": caseID, "momentums": top, "blocks": len(gossip), "accepted_by_action": acc, "rejected_by_action": w.Rejected, "max_ack_depth": maxDepth})
	}

	refDump := P.DumpFrontier()
	refQueries := c02Queries(P, r.Int63())
	schedules := []string{"one-by-one", "random-batches", "gossip-all-first", "gossip-subset-late", "warm-caches", "restarts", "rlp-wire", "competing-siblings-heard", "broken-copies-first"}
	var rawRef map[string]string
	for si, sched := range schedules {
		sr := rand.New(rand.NewSource(r.Int63()))
		F := simnet.Open("F-"+sched, fmt.Sprintf("%s/F%d", base, si), simnet.MockGenesis(), nil)
		ok := c02Deliver(c, P, F, sched, sr, gossip)
		if ok {
			c.Eval(1)
			if deepAcks > 0 {
				c.Distinct(caseID + "/" + sched)
			}
			if F.Frontier().Hash != P.Frontier().Hash {
				c.Violation("frontier-hash-differs "+sched, map[string]interface{}{"follower": fmt.Sprint(F.Frontier().Identifier()), "producer": fmt.Sprint(P.Frontier().Identifier())})
			} else {
				if diffs := simnet.DiffDumps(refDump, F.DumpFrontier(), 6); len(diffs) > 0 {
					c.Violation("ledger-content-differs "+sched, map[string]interface{}{"diffs": diffs, "keys_producer": len(refDump)})
				}
				c.Eval(len(refDump))
				got := c02QueriesSeeded(F, refQueries.seed)
				for i := range refQueries.answers {
					c.Eval(1)
					if i < len(got.answers) && got.answers[i] != refQueries.answers[i] {
						c.Violation("query-answer-differs "+sched+" "+refQueries.names[i], map[string]interface{}{"query": refQueries.names[i], "producer": c02trunc(refQueries.answers[i]), "follower": c02trunc(got.answers[i])})
						break
					}
				}
			}
		}
		// raw LevelDB comparison of stopped nodes (reference: the first follower; P itself is compared at the end)
		F.Stop()
		raw, err := simnet.RawDump(F.Dir)
		if err == nil && ok {
			if rawRef == nil {
				rawRef = raw
			} else if diffs := simnet.DiffDumps(rawRef, raw, 6); len(diffs) > 0 {
				c.Violation("raw-store-differs "+sched, map[string]interface{}{"diffs": diffs})
			}
			c.Eval(len(raw))
		}
		os.RemoveAll(F.Dir)
	}
	P.Stop()
	if raw, err := simnet.RawDump(P.Dir); err == nil && rawRef != nil {
		if diffs := simnet.DiffDumps(raw, rawRef, 6); len(diffs) > 0 {
			c.Violation("raw-store-differs producer-vs-follower", map[string]interface{}{"diffs": diffs})
		}
	}
}

func c02trunc(s string) string {
	if len(s) > 300 {
		return s[:300] + "…"
	}
	return s
}

// c02Deliver feeds P's chain to F under a schedule. Returns false when a violation was reported.
func c02Deliver(c *fw.C, P, F *simnet.Node, sched string, r *rand.Rand, gossip []c02Gossip) bool {
	top := P.Height()
	gi := 0 // next gossip index
	si := 0 // next sibling index
	sendGossip := func(upTo uint64, frac int, lag uint64) bool {
		// deliver pool blocks P had accepted while its frontier was <= upTo-lag
		var batch []*nom.AccountBlock
		for gi < len(gossip) && gossip[gi].atHeight+lag <= upTo {
			if frac >= 100 || r.Intn(100) < frac {
				batch = append(batch, simnet.CloneBlock(gossip[gi].block))
			}
			gi++
		}
		if len(batch) == 0 {
			return true
		}
		c.SetAdd("gossip_batch_sizes", fmt.Sprint(len(batch)))
		// gossip is best effort: a block whose predecessor was not gossiped is refused, and
		// AddAccountBlocks stops at the first refusal — that is allowed; nothing to assert here.
		for _, b := range batch {
			_ = F.Bridge.AddAccountBlocks([]*nom.AccountBlock{b})
		}
		return true
	}
	for F.Height() < top {
		h := F.Height()
		size := 1
		switch sched {
		case "random-batches", "warm-caches", "restarts", "rlp-wire", "gossip-subset-late":
			size = 1 + r.Intn(40)
			if r.Intn(5) == 0 {
				size = 1 + r.Intn(128)
			}
		case "gossip-all-first", "competing-siblings-heard", "broken-copies-first":
			size = 1 + r.Intn(3)
		}
		to := h + uint64(size)
		if to > top {
			to = top
		}
		c.SetAdd("batch_sizes", fmt.Sprint(to-h))
		switch sched {
		case "competing-siblings-heard":
			for si < len(c02Siblings) && c02Siblings[si].atHeight <= h {
				if err := F.Bridge.AddAccountBlocks([]*nom.AccountBlock{simnet.CloneBlock(c02Siblings[si].block)}); err == nil {
					c.Count("competing_siblings_pooled_by_a_follower", 1)
				}
				si++
			}
		case "gossip-all-first":
			sendGossip(h, 100, 0)
		case "gossip-subset-late":
			sendGossip(h, 60, uint64(r.Intn(4)))
		case "warm-caches":
			// ask for historical stores and elections before the delivery
			for k := 0; k < 4; k++ {
				hh := 1 + uint64(r.Int63n(int64(h)))
				if m, _ := F.Chain.GetFrontierMomentumStore().GetMomentumByHeight(hh); m != nil {
					if st := F.Chain.GetMomentumStore(m.Identifier()); st != nil {
						_, _ = st.GetFrontierMomentum()
						_, _ = st.GetActivePillars()
					}
				}
				_, _ = F.Cons.GetMomentumProducer(F.Frontier().Timestamp.Add(time.Duration(10*(1+r.Intn(40))) * time.Second))
			}
		case "restarts":
			if r.Intn(3) == 0 {
				if r.Intn(2) == 0 {
					F.Restart()
					c.Count("follower_restarts", 1)
				} else {
					F.RestartFresh()
					c.Count("follower_restarts_with_deleted_consensus_cache", 1)
				}
			}
		}
		if sched == "broken-copies-first" {
			// a faulty peer is faster: before the producer's momentums arrive the follower is offered copies of them
			// that fail late in verification (signature flipped; state hash changed and re-signed is not possible for a
			// third party, so: signature, or the content list cut short). Refusing them must leave nothing behind.
			bad := simnet.CloneBatch(P.Range(h+1, to))
			k := r.Intn(len(bad))
			m := bad[k].Momentum
			how := "signature"
			if len(m.Content) > 1 && r.Intn(2) == 0 {
				how = "account-block-missing"
				bad[k].AccountBlocks = bad[k].AccountBlocks[:len(bad[k].AccountBlocks)-1]
			} else {
				m.Signature = append([]byte{}, m.Signature...)
				m.Signature[r.Intn(len(m.Signature))] ^= 1 << uint(r.Intn(8))
			}
			if _, err := F.InsertChain(bad); err == nil {
				c.Violation("follower-accepts-broken-copy "+how, map[string]interface{}{"height": m.Height})
				return false
			}
			c.Count("broken_copies_refused_before_the_genuine_momentum "+how, 1)
		}
		batch := simnet.CloneBatch(P.Range(h+1, to))
		if sched == "rlp-wire" {
			wb, err := simnet.WireBatch(batch)
			if err != nil {
				c.Violation("rlp-roundtrip-error", err.Error())
				return false
			}
			batch = wb
		}
		// the follower's wall clock is not the producer's: it hears the batch minutes, days or years after the slot
		// of its last momentum, or with a clock that is behind
		skew := simnet.ClockSkews[r.Intn(len(simnet.ClockSkews))]
		var idx int
		var err error
		simnet.WithClock(batch[len(batch)-1].Momentum.Timestamp.Add(skew), func() { idx, err = F.InsertChain(batch) })
		c.Eval(1)
		c.SetAdd("follower_clock_minus_batch_time", skew.String())
		if err != nil {
			bad := batch[minInt(idx, len(batch)-1)]
			c.Violation("follower-refuses-producers-momentum "+sched, map[string]interface{}{
				"err": err.Error(), "index": idx, "batch_from": h + 1, "batch_to": to, "follower_clock_minus_batch_time": skew.String(),
				"momentum": fmt.Sprint(bad.Momentum.Identifier()), "blocks_in_momentum": len(bad.AccountBlocks)})
			return false
		}
	}
	return true
}

func minInt(a, b int) int {
	if a < b {
		return a
	}
	return b
}

type c02QA struct {
	seed    int64
	names   []string
	answers []string
}

func c02Queries(n *simnet.Node, seed int64) c02QA { return c02QueriesSeeded(n, seed) }

// c02QueriesSeeded runs a fixed battery of ledger queries (through the store accessors the RPC layer uses).
func c02QueriesSeeded(n *simnet.Node, seed int64) c02QA {
	r := rand.New(rand.NewSource(seed))
	qa := c02QA{seed: seed}
	add := func(name, ans string) {
		qa.names = append(qa.names, name)
		qa.answers = append(qa.answers, ans)
	}
	st := n.Chain.GetFrontierMomentumStore()
	top := n.Height()
	users := simnet.DefaultUsers()
	addrs := []types.Address{}
	for _, u := range users {
		addrs = append(addrs, u.Address)
	}
	addrs = append(addrs, types.EmbeddedContracts...)
	for _, a := range addrs {
		as := st.GetAccountStore(a)
		f, _ := as.Frontier()
		fs := "nil"
		if f != nil {
			fs = fmt.Sprint(f.Identifier())
		}
		bm, _ := as.GetBalanceMap()
		var bl []string
		for z, v := range bm {
			bl = append(bl, z.String()+"="+v.String())
		}
		sort.Strings(bl)
		pl, _ := as.GetChainPlasma()
		add("account-frontier-balances "+c02AddrClass(a), fmt.Sprintf("%s %v plasma=%v", fs, bl, pl))
		un, _ := st.GetAccountMailbox(a).GetUnreceivedAccountBlockHashes(50)
		add("unreceived "+c02AddrClass(a), fmt.Sprint(un))
		if f != nil {
			hgt := 1 + uint64(r.Int63n(int64(f.Height)))
			b, _ := as.ByHeight(hgt)
			if b != nil {
				data, _ := b.Serialize()
				add("account-block-by-height "+c02AddrClass(a), hex.EncodeToString(data))
				ch, _ := st.GetBlockConfirmationHeight(b.Hash)
				add("confirmation-height "+c02AddrClass(a), fmt.Sprint(ch))
			}
		}
	}
	// historical views
	for k := 0; k < 6; k++ {
		hh := 1 + uint64(r.Int63n(int64(top)))
		m, _ := st.GetMomentumByHeight(hh)
		if m == nil {
			continue
		}
		hs := n.Chain.GetMomentumStore(m.Identifier())
		if hs == nil {
			add("historical-view", "nil")
			continue
		}
		a := addrs[r.Intn(len(addrs))]
		bal, _ := hs.GetAccountStore(a).GetBalance(types.ZnnTokenStandard)
		if bal == nil {
			bal = big.NewInt(0)
		}
		f, _ := hs.GetAccountStore(a).Frontier()
		fs := "nil"
		if f != nil {
			fs = fmt.Sprint(f.Identifier())
		}
		pillars, _ := hs.GetActivePillars()
		dels, _ := hs.ComputePillarDelegations()
		ds := ""
		for _, d := range dels {
			ds += fmt.Sprintf("%s:%v;", d.Name, d.Weight)
		}
		add("historical-view", fmt.Sprintf("h=%d %s znn=%v frontier=%s pillars=%d delegations=%s", hh, c02AddrClass(a), bal, fs, len(pillars), ds))
	}
	// schedule for a few ticks
	for k := 0; k < 5; k++ {
		t := n.Gen.GetGenesisMomentum().Timestamp.Add(time.Duration(10*r.Int63n(int64(top)+30)) * time.Second)
		p, err := n.Cons.GetMomentumProducer(t)
		if err != nil {
			add("producer-for-slot", "err")
		} else {
			add("producer-for-slot", p.String())
		}
	}
	return qa
}

func c02AddrClass(a types.Address) string {
	if types.IsEmbeddedAddress(a) {
		return "contract " + a.String()
	}
	return "user " + a.String()
}

// c02PoolPatch: the change set the producer's pool holds for a block it just accepted.
func c02PoolPatch(n *simnet.Node, b *nom.AccountBlock) db.Patch {
	return n.Chain.GetPatch(b.Address, b.Identifier())
}
