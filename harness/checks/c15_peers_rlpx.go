//go:build verif

package checks

// C15 — RLPx piece: the genuine frame reader/writer and the genuine encryption handshake
// (through p2p/export_verif.go) on mutated byte streams.

import (
	"bytes"
	"crypto/aes"
	"crypto/cipher"
	"crypto/ecdsa"
	"fmt"
	"hash"
	"io"
	"math"
	"math/rand"
	"net"
	"runtime/debug"
	"strconv"
	"time"

	"golang.org/x/crypto/sha3"

	"github.com/ethereum/go-ethereum/crypto"
	"github.com/ethereum/go-ethereum/crypto/ecies"

	"github.com/zenon-network/go-zenon/p2p"
	"github.com/zenon-network/go-zenon/p2p/discover"

	"verif/harness/fw"
)

var c15FrameMuts = []string{"control", "header-bits", "mac-bits", "body-bits", "truncate", "swap", "dup", "drop", "insert", "keyed-hostile", "raw-hostile", "handshake-keys"}
var c15HsMuts = []string{"control", "auth-bits", "auth-truncate", "auth-random", "auth-forged", "resp-bits", "resp-truncate", "resp-random", "resp-forged"}

type c15RW struct {
	io.Reader
	io.Writer
}

type c15Sent struct {
	code       uint64
	payload    []byte
	start, end int // byte range of the frame in the stream
}

type c15Got struct {
	code    uint64
	payload []byte
}

// c15Keys are the symmetric secrets of one direction, derived from the case PRNG.
type c15Keys struct{ aes, mac, seedE, seedI []byte }

func c15NewKeys(rng *rand.Rand) c15Keys {
	k := c15Keys{make([]byte, 32), make([]byte, 32), make([]byte, 48), make([]byte, 48)}
	rng.Read(k.aes)
	rng.Read(k.mac)
	rng.Read(k.seedE)
	rng.Read(k.seedI)
	return k
}

func c15Seeded(seed []byte) hash.Hash {
	h := sha3.New256()
	h.Write(seed)
	return h
}

func (k c15Keys) writerSecrets() p2p.SecretsForVerif {
	return p2p.SecretsForVerif{AES: k.aes, MAC: k.mac, EgressMAC: c15Seeded(k.seedE), IngressMAC: c15Seeded(k.seedI)}
}

func (k c15Keys) readerSecrets() p2p.SecretsForVerif {
	return p2p.SecretsForVerif{AES: k.aes, MAC: k.mac, EgressMAC: c15Seeded(k.seedI), IngressMAC: c15Seeded(k.seedE)}
}

var c15PayloadSizes = []int{0, 1, 14, 15, 16, 17, 31, 32, 100, 1000}
var c15FrameCodes = []uint64{0, 1, 2, 16, 24, 127, 128, 255, 1 << 32, math.MaxUint64}

func c15RandMsgs(rng *rand.Rand, n int, small bool) []c15Sent {
	l := make([]c15Sent, n)
	for i := range l {
		sz := c15PayloadSizes[rng.Intn(len(c15PayloadSizes))]
		if small && sz > 40 {
			sz = rng.Intn(40)
		}
		if !small && rng.Intn(40) == 0 {
			sz = 70000
		}
		l[i].code = c15FrameCodes[rng.Intn(len(c15FrameCodes))]
		l[i].payload = make([]byte, sz)
		rng.Read(l[i].payload)
	}
	return l
}

// c15WriteStream writes the messages with the GENUINE writer and records frame boundaries.
func c15WriteStream(sec p2p.SecretsForVerif, msgs []c15Sent) ([]byte, error) {
	var buf bytes.Buffer
	w := p2p.NewRLPXFrameRWForVerif(c15RW{bytes.NewReader(nil), &buf}, sec)
	for i := range msgs {
		msgs[i].start = buf.Len()
		if err := w.WriteMsg(p2p.Msg{Code: msgs[i].code, Size: uint32(len(msgs[i].payload)), Payload: bytes.NewReader(msgs[i].payload)}); err != nil {
			return nil, err
		}
		msgs[i].end = buf.Len()
	}
	return buf.Bytes(), nil
}

// c15ReadStream reads with the GENUINE reader until the first error.
func c15ReadStream(sec p2p.SecretsForVerif, stream []byte, max int) (got []c15Got, rerr error, pnc interface{}, stack string) {
	defer func() {
		if r := recover(); r != nil {
			pnc, stack = r, string(debug.Stack())
		}
	}()
	r := p2p.NewRLPXFrameRWForVerif(c15RW{bytes.NewReader(stream), io.Discard}, sec)
	for i := 0; i < max; i++ {
		msg, err := r.ReadMsg()
		if err != nil {
			return got, err, nil, ""
		}
		p, _ := io.ReadAll(msg.Payload)
		got = append(got, c15Got{msg.Code, p})
	}
	return got, nil, nil, ""
}

// c15Judge applies the stream oracle: exactly the first `intact` messages are delivered
// unchanged and the read after them fails. Returns true when the control part held.
func c15Judge(c *fw.C, mut string, want []c15Got, intact int, got []c15Got, rerr error, pnc interface{}, stack string, wit map[string]interface{}) bool {
	c.Eval(1)
	if pnc != nil {
		wit["panic"], wit["stack"] = fmt.Sprint(pnc), c15Trim(stack)
		c.Violation("rlpx-panic "+mut, wit)
		return false
	}
	for i := range got {
		if i >= intact {
			wit["delivered_index"], wit["delivered_code"], wit["delivered_len"] = i, got[i].code, len(got[i].payload)
			if i < len(want) && got[i].code == want[i].code && bytes.Equal(got[i].payload, want[i].payload) {
				c.Violation("rlpx-corrupt-frame-accepted "+mut, wit)
			} else {
				c.Violation("rlpx-altered-message-delivered "+mut, wit)
			}
			return false
		}
		if got[i].code != want[i].code || !bytes.Equal(got[i].payload, want[i].payload) {
			wit["delivered_index"] = i
			c.Violation("rlpx-altered-message-delivered "+mut, wit)
			return false
		}
	}
	if len(got) < intact {
		c.Inconclusive(fmt.Sprintf("rlpx control: intact frame %d of %d rejected (%v) under %s", len(got), intact, rerr, mut))
		return false
	}
	if rerr == nil {
		wit["note"] = "reader returned no error after the corrupted position"
		c.Violation("rlpx-corrupt-frame-accepted "+mut, wit)
		return false
	}
	return true
}

func c15Want(msgs []c15Sent) []c15Got {
	l := make([]c15Got, len(msgs))
	for i, m := range msgs {
		l[i] = c15Got{m.code, m.payload}
	}
	return l
}

func c15FrameOf(msgs []c15Sent, off int) int {
	for i, m := range msgs {
		if off < m.end {
			return i
		}
	}
	return len(msgs)
}

func c15FlipBit(stream []byte, bit int) []byte {
	out := append([]byte(nil), stream...)
	out[bit/8] ^= 1 << uint(bit%8)
	return out
}

func c15RunRlpx(c *fw.C, caseID string, parts []string) {
	rng := c.Rand(caseID)
	if parts[1] == "hs" {
		k, _ := strconv.Atoi(parts[3])
		c15RunHandshake(c, caseID, parts[2], rng, k)
		return
	}
	mut := parts[2]
	keys := c15NewKeys(rng)
	small := mut == "truncate"
	msgs := c15RandMsgs(rng, 4+rng.Intn(3), small)
	stream, err := c15WriteStream(keys.writerSecrets(), msgs)
	if err != nil {
		c.Inconclusive("rlpx: genuine writer failed: " + err.Error())
		return
	}
	want := c15Want(msgs)
	okc := 0
	run := func(label string, mutated []byte, intact int, extra map[string]interface{}) {
		got, rerr, pnc, stack := c15ReadStream(keys.readerSecrets(), mutated, len(msgs)+3)
		wit := map[string]interface{}{"mutation": label, "frames": len(msgs), "first_corrupt_frame": intact, "stream_len": len(stream), "case": caseID}
		for k, v := range extra {
			wit[k] = v
		}
		if c15Judge(c, mut, want, intact, got, rerr, pnc, stack, wit) {
			okc++
			if rerr != nil {
				c.SetAdd("rlpx_reject_reasons", c15ErrClass(rerr))
			}
		}
	}
	// control: the unmutated stream is delivered completely, then EOF
	run("none", stream, len(msgs), nil)
	if okc == 0 {
		return
	}
	c.Distinct("rlpx frame control delivered")
	switch mut {
	case "control":
	case "header-bits":
		for fi := 0; fi < 3 && fi < len(msgs); fi++ {
			for b := 0; b < 128; b++ {
				run(fmt.Sprintf("frame %d header bit %d", fi, b), c15FlipBit(stream, msgs[fi].start*8+b), fi, nil)
			}
		}
	case "mac-bits":
		for fi := 0; fi < 3 && fi < len(msgs); fi++ {
			for b := 0; b < 128; b++ {
				run(fmt.Sprintf("frame %d header-MAC bit %d", fi, b), c15FlipBit(stream, (msgs[fi].start+16)*8+b), fi, nil)
				run(fmt.Sprintf("frame %d frame-MAC bit %d", fi, b), c15FlipBit(stream, (msgs[fi].end-16)*8+b), fi, nil)
			}
		}
	case "body-bits":
		for i := 0; i < 300; i++ {
			fi := rng.Intn(len(msgs))
			blen := msgs[fi].end - 16 - (msgs[fi].start + 32)
			if blen <= 0 {
				continue
			}
			off := msgs[fi].start + 32 + rng.Intn(blen)
			run(fmt.Sprintf("frame %d body byte %d", fi, off-msgs[fi].start-32), c15FlipBit(stream, off*8+rng.Intn(8)), fi, nil)
		}
	case "truncate":
		for o := 0; o < len(stream); o++ {
			intact := 0
			for _, m := range msgs {
				if m.end <= o {
					intact++
				}
			}
			run(fmt.Sprintf("truncated at %d", o), stream[:o], intact, nil)
		}
	case "swap":
		for i := 0; i < len(msgs); i++ {
			for j := i + 1; j < len(msgs); j++ {
				var out []byte
				for k := range msgs {
					src := k
					if k == i {
						src = j
					} else if k == j {
						src = i
					}
					out = append(out, stream[msgs[src].start:msgs[src].end]...)
				}
				run(fmt.Sprintf("frames %d and %d swapped", i, j), out, i, nil)
			}
		}
	case "dup":
		for i := range msgs {
			out := append([]byte(nil), stream[:msgs[i].end]...)
			out = append(out, stream[msgs[i].start:msgs[i].end]...)
			out = append(out, stream[msgs[i].end:]...)
			run(fmt.Sprintf("frame %d duplicated", i), out, i+1, nil)
		}
	case "drop":
		for i := range msgs {
			out := append([]byte(nil), stream[:msgs[i].start]...)
			out = append(out, stream[msgs[i].end:]...)
			run(fmt.Sprintf("frame %d dropped", i), out, i, nil)
		}
	case "insert":
		for i := 0; i < 200; i++ {
			off := rng.Intn(len(stream) + 1)
			if i < len(msgs) {
				off = msgs[i].start
			}
			junk := make([]byte, 1+rng.Intn(100))
			rng.Read(junk)
			out := append([]byte(nil), stream[:off]...)
			out = append(out, junk...)
			out = append(out, stream[off:]...)
			run(fmt.Sprintf("%d random bytes inserted at %d", len(junk), off), out, c15FrameOf(msgs, off), nil)
		}
	case "keyed-hostile":
		c15KeyedHostile(c, caseID, rng, keys)
	case "raw-hostile":
		c15RawHostile(c, caseID, rng, keys)
	case "handshake-keys":
		c15HandshakeFrames(c, caseID, rng)
	}
	if okc > 1 {
		c.Distinct(fmt.Sprintf("rlpx frame %s: every mutant rejected at the corrupted frame, prefix intact", mut))
	}
	c.Count("rlpx_frame_mutants", okc)
}

// c15KeyedHostile: the genuine writer, used by a peer that owns the keys but lies about sizes.
func c15KeyedHostile(c *fw.C, caseID string, rng *rand.Rand, keys c15Keys) {
	for v := 0; v < 60; v++ {
		msgs := c15RandMsgs(rng, 3, true)
		msgs[1].payload = make([]byte, 20+rng.Intn(200))
		rng.Read(msgs[1].payload)
		real := len(msgs[1].payload)
		var claimed uint32
		var label string
		switch v % 5 {
		case 0:
			claimed, label = uint32(real+1+rng.Intn(64)), "size-larger"
		case 1:
			claimed, label = uint32(rng.Intn(real)), "size-smaller"
		case 2:
			claimed, label = 0, "size-zero"
		case 3:
			claimed, label = 0xfffff0, "size-16MiB"
		case 4:
			claimed, label = uint32(real+16*(1+rng.Intn(4))), "size-larger-by-blocks"
		}
		var buf bytes.Buffer
		w := p2p.NewRLPXFrameRWForVerif(c15RW{bytes.NewReader(nil), &buf}, keys.writerSecrets())
		for i := range msgs {
			size := uint32(len(msgs[i].payload))
			if i == 1 {
				size = claimed
			}
			_ = w.WriteMsg(p2p.Msg{Code: msgs[i].code, Size: size, Payload: bytes.NewReader(msgs[i].payload)})
		}
		got, rerr, pnc, stack := c15ReadStream(keys.readerSecrets(), buf.Bytes(), 6)
		wit := map[string]interface{}{"mutation": "genuine writer, frame 1 written with Msg.Size=" + fmt.Sprint(claimed) + " but " + fmt.Sprint(real) + " payload bytes", "case": caseID}
		if c15Judge(c, "keyed-hostile "+label, c15Want(msgs), 1, got, rerr, pnc, stack, wit) {
			c.Distinct("rlpx keyed-hostile " + label + " rejected")
		}
	}
}

// ---- independent implementation of the RLPx egress side (from the specification) ----

type c15RawWriter struct {
	enc    cipher.Stream
	macc   cipher.Block
	egress hash.Hash
	out    bytes.Buffer
}

func c15NewRawWriter(k c15Keys) *c15RawWriter {
	macc, _ := aes.NewCipher(k.mac)
	encc, _ := aes.NewCipher(k.aes)
	return &c15RawWriter{enc: cipher.NewCTR(encc, make([]byte, 16)), macc: macc, egress: c15Seeded(k.seedE)}
}

func (w *c15RawWriter) updateMAC(seed []byte) []byte {
	buf := make([]byte, 16)
	w.macc.Encrypt(buf, w.egress.Sum(nil)[:16])
	for i := range buf {
		buf[i] ^= seed[i]
	}
	w.egress.Write(buf)
	return w.egress.Sum(nil)[:16]
}

// frame writes one frame: plaintext 16-byte header and already padded content (any length).
func (w *c15RawWriter) frame(header, content []byte) {
	h := append([]byte(nil), header...)
	w.enc.XORKeyStream(h, h)
	w.out.Write(h)
	w.out.Write(w.updateMAC(h))
	ct := append([]byte(nil), content...)
	w.enc.XORKeyStream(ct, ct)
	w.out.Write(ct)
	w.egress.Write(ct)
	seed := w.egress.Sum(nil)
	w.out.Write(w.updateMAC(seed))
}

func c15Header(fsize int, rest []byte) []byte {
	h := make([]byte, 16)
	h[0], h[1], h[2] = byte(fsize>>16), byte(fsize>>8), byte(fsize)
	if rest == nil {
		rest = []byte{0xc2, 0x80, 0x80}
	}
	copy(h[3:], rest)
	return h
}

func c15Pad(b []byte, fill byte) []byte {
	out := append([]byte(nil), b...)
	for len(out)%16 != 0 {
		out = append(out, fill)
	}
	return out
}

func (w *c15RawWriter) honest(m c15Sent) {
	content := append(c15RlpUint(m.code), m.payload...)
	w.frame(c15Header(len(content), nil), c15Pad(content, 0))
}

// c15RawHostile: validly MACed frames (the peer owns the keys) with hostile header / content.
func c15RawHostile(c *fw.C, caseID string, rng *rand.Rand, keys c15Keys) {
	type variant struct {
		name   string
		expect string // "error": nothing may be delivered for it; "deliver": if delivered it must be exactly want
		write  func(w *c15RawWriter) *c15Got
	}
	payload := make([]byte, 5+rng.Intn(60))
	rng.Read(payload)
	vs := []variant{
		{"differential-honest", "deliver", func(w *c15RawWriter) *c15Got {
			w.honest(c15Sent{code: 77, payload: payload})
			return &c15Got{77, payload}
		}},
		{"empty-frame", "error", func(w *c15RawWriter) *c15Got { w.frame(c15Header(0, nil), nil); return nil }},
		{"list-as-code", "error", func(w *c15RawWriter) *c15Got {
			ct := append([]byte{0xc0}, payload...)
			w.frame(c15Header(len(ct), nil), c15Pad(ct, 0))
			return nil
		}},
		{"truncated-code-string", "error", func(w *c15RawWriter) *c15Got { w.frame(c15Header(1, nil), c15Pad([]byte{0x83}, 0)); return nil }},
		{"code-72-bits", "error", func(w *c15RawWriter) *c15Got {
			ct := append([]byte{0x89, 1, 0, 0, 0, 0, 0, 0, 0, 0}, payload...)
			w.frame(c15Header(len(ct), nil), c15Pad(ct, 0))
			return nil
		}},
		{"code-max", "deliver", func(w *c15RawWriter) *c15Got {
			w.honest(c15Sent{code: math.MaxUint64, payload: payload})
			return &c15Got{math.MaxUint64, payload}
		}},
		{"garbage-header-data", "deliver", func(w *c15RawWriter) *c15Got {
			rest := make([]byte, 13)
			rng.Read(rest)
			ct := append(c15RlpUint(9), payload...)
			w.frame(c15Header(len(ct), rest), c15Pad(ct, 0))
			return &c15Got{9, payload}
		}},
		{"nonzero-padding", "deliver", func(w *c15RawWriter) *c15Got {
			ct := append(c15RlpUint(9), payload...)
			w.frame(c15Header(len(ct), nil), c15Pad(ct, 0xee))
			return &c15Got{9, payload}
		}},
		{"fsize-beyond-stream", "error", func(w *c15RawWriter) *c15Got {
			ct := append(c15RlpUint(9), payload...)
			w.frame(c15Header(len(ct)+4096, nil), c15Pad(ct, 0))
			return nil
		}},
		{"fsize-16MiB", "error", func(w *c15RawWriter) *c15Got {
			w.frame(c15Header(0xffffff, nil), c15Pad(payload, 0))
			return nil
		}},
		{"fsize-smaller-than-content", "error", func(w *c15RawWriter) *c15Got {
			ct := make([]byte, 48)
			rng.Read(ct)
			ct[0] = 9
			w.frame(c15Header(5, nil), ct)
			return nil
		}},
		{"unpadded-content", "error", func(w *c15RawWriter) *c15Got {
			ct := append(c15RlpUint(9), payload...)
			if len(ct)%16 == 0 {
				ct = append(ct, 1)
			}
			w.frame(c15Header(len(ct), nil), ct)
			return nil
		}},
	}
	for _, v := range vs {
		msgs := c15RandMsgs(rng, 2, true)
		w := c15NewRawWriter(keys)
		w.honest(msgs[0])
		wantHostile := v.write(w)
		w.honest(msgs[1])
		got, rerr, pnc, stack := c15ReadStream(keys.readerSecrets(), w.out.Bytes(), 5)
		wit := map[string]interface{}{"mutation": "validly MACed hostile frame: " + v.name, "case": caseID, "stream_hex": fmt.Sprintf("%x", w.out.Bytes())}
		c.Eval(1)
		sig := "raw-hostile " + v.name
		switch {
		case pnc != nil:
			wit["panic"], wit["stack"] = fmt.Sprint(pnc), c15Trim(stack)
			c.Violation("rlpx-panic "+sig, wit)
		case len(got) == 0 || got[0].code != msgs[0].code || !bytes.Equal(got[0].payload, msgs[0].payload):
			c.Inconclusive("rlpx control: honest frame from the independent writer rejected before " + v.name)
		case v.expect == "error":
			if len(got) > 1 {
				wit["delivered_code"], wit["delivered_len"] = got[1].code, len(got[1].payload)
				c.Violation("rlpx-malformed-frame-accepted "+sig, wit)
			} else {
				c.Distinct("rlpx " + sig + " -> rejected")
				c.SetAdd("rlpx_reject_reasons", c15ErrClass(rerr))
			}
		default:
			if len(got) > 1 && (got[1].code != wantHostile.code || !bytes.Equal(got[1].payload, wantHostile.payload)) {
				c.Violation("rlpx-altered-message-delivered "+sig, wit)
			} else if len(got) > 1 {
				c.Distinct("rlpx " + sig + " -> delivered unchanged")
			} else {
				c.Distinct("rlpx " + sig + " -> rejected")
			}
		}
	}
}

// ---------------------------------------------------------------------------
// encryption handshake

func c15Key(rng *rand.Rand) *ecdsa.PrivateKey {
	for {
		b := make([]byte, 32)
		rng.Read(b)
		if k, err := crypto.ToECDSA(b); err == nil {
			return k
		}
	}
}

type c15RecConn struct {
	net.Conn
	wrote bytes.Buffer
}

func (r *c15RecConn) Write(p []byte) (int, error) {
	r.wrote.Write(p)
	return r.Conn.Write(p)
}

type c15HS struct {
	kI, kR     *ecdsa.PrivateKey
	auth, resp []byte
	sI, sR     p2p.SecretsForVerif
}

// c15GenuineHandshake runs the genuine initiator and receiver against each other over net.Pipe.
func c15GenuineHandshake(rng *rand.Rand) (*c15HS, error) {
	h := &c15HS{kI: c15Key(rng), kR: c15Key(rng)}
	a, b := net.Pipe()
	_ = a.SetDeadline(time.Now().Add(c15Watchdog))
	_ = b.SetDeadline(time.Now().Add(c15Watchdog))
	ca, cb := &c15RecConn{Conn: a}, &c15RecConn{Conn: b}
	type res struct {
		s   p2p.SecretsForVerif
		err error
	}
	rc := make(chan res, 1)
	go func() {
		s, err := p2p.ReceiverEncHandshakeForVerif(cb, h.kR, nil)
		rc <- res{s, err}
	}()
	sI, err := p2p.InitiatorEncHandshakeForVerif(ca, h.kI, discover.PubkeyID(&h.kR.PublicKey), nil)
	r := <-rc
	_ = a.Close()
	_ = b.Close()
	if err != nil {
		return nil, err
	}
	if r.err != nil {
		return nil, r.err
	}
	h.sI, h.sR = sI, r.s
	h.auth, h.resp = ca.wrote.Bytes(), cb.wrote.Bytes()
	return h, nil
}

// c15HandshakeFrames: secrets from a genuine handshake; frames in both directions; sampled mutants.
func c15HandshakeFrames(c *fw.C, caseID string, rng *rand.Rand) {
	for v := 0; v < 24; v++ {
		h, err := c15GenuineHandshake(rng)
		if err != nil {
			c.Inconclusive("rlpx: genuine handshake failed: " + err.Error())
			return
		}
		if h.sI.RemoteID != discover.PubkeyID(&h.kR.PublicKey) || h.sR.RemoteID != discover.PubkeyID(&h.kI.PublicKey) {
			c.Violation("rlpx-handshake-wrong-remote-id", map[string]interface{}{"case": caseID})
			return
		}
		msgs := c15RandMsgs(rng, 4, true)
		ws, rs := h.sI, h.sR
		if v%2 == 1 {
			ws, rs = h.sR, h.sI
		}
		stream, err := c15WriteStream(ws, msgs)
		if err != nil {
			c.Inconclusive("rlpx: genuine writer failed: " + err.Error())
			return
		}
		intact, label := len(msgs), "none"
		mutated := stream
		if v >= 2 {
			bit := rng.Intn(len(stream) * 8)
			mutated, intact, label = c15FlipBit(stream, bit), c15FrameOf(msgs, bit/8), fmt.Sprintf("bit %d", bit)
		}
		got, rerr, pnc, stack := c15ReadStream(rs, mutated, len(msgs)+2)
		wit := map[string]interface{}{"mutation": label, "secrets": "from a genuine encryption handshake", "case": caseID}
		if c15Judge(c, "handshake-keys", c15Want(msgs), intact, got, rerr, pnc, stack, wit) {
			c.Count("rlpx_frame_mutants", 1)
			if v < 2 {
				c.Distinct(fmt.Sprintf("rlpx genuine handshake then frames, direction %d: delivered", v%2))
			}
		}
	}
}

type c15Script struct {
	in  *bytes.Reader
	out bytes.Buffer
}

func (s *c15Script) Read(p []byte) (int, error)  { return s.in.Read(p) }
func (s *c15Script) Write(p []byte) (int, error) { return s.out.Write(p) }

func c15TryReceiver(k *ecdsa.PrivateKey, auth []byte) (err error, pnc interface{}, stack string) {
	defer func() {
		if r := recover(); r != nil {
			pnc, stack = r, string(debug.Stack())
		}
	}()
	_, err = p2p.ReceiverEncHandshakeForVerif(&c15Script{in: bytes.NewReader(auth)}, k, nil)
	return
}

func c15TryInitiator(k *ecdsa.PrivateKey, remote discover.NodeID, resp []byte) (err error, pnc interface{}, stack string) {
	defer func() {
		if r := recover(); r != nil {
			pnc, stack = r, string(debug.Stack())
		}
	}()
	_, err = p2p.InitiatorEncHandshakeForVerif(&c15Script{in: bytes.NewReader(resp)}, k, remote, nil)
	return
}

func c15XorBytes(a, b []byte) []byte {
	out := make([]byte, len(a))
	for i := range a {
		out[i] = a[i] ^ b[i]
	}
	return out
}

// c15HsVariants is the number of thorough-tier variants per handshake mutation (see c15Cases):
// in the thorough tier variant k flips every bit b with b % c15HsVariants == k, so all bits are covered.
const c15HsVariants = 12

func c15RunHandshake(c *fw.C, caseID, mut string, rng *rand.Rand, k int) {
	bitsOf := func(n int) []int {
		var l []int
		if c.Thorough() {
			for b := k % c15HsVariants; b < n; b += c15HsVariants {
				l = append(l, b)
			}
			return l
		}
		for i := 0; i < 256; i++ {
			l = append(l, rng.Intn(n))
		}
		return l
	}
	h, err := c15GenuineHandshake(rng)
	if err != nil {
		c.Inconclusive("rlpx: genuine handshake failed: " + err.Error())
		return
	}
	idR := discover.PubkeyID(&h.kR.PublicKey)
	// control: the recorded genuine messages are accepted when replayed to the same keys
	if e, p, _ := c15TryReceiver(h.kR, h.auth); e != nil || p != nil {
		c.Inconclusive(fmt.Sprintf("rlpx hs control: recorded auth not accepted: %v %v", e, p))
		return
	}
	if e, p, _ := c15TryInitiator(h.kI, idR, h.resp); e != nil || p != nil {
		c.Inconclusive(fmt.Sprintf("rlpx hs control: recorded response not accepted: %v %v", e, p))
		return
	}
	c.Eval(2)
	c.Distinct("rlpx handshake control accepted")
	n := 0
	judge := func(side, label string, mustFail bool, e error, p interface{}, stack string) {
		c.Eval(1)
		wit := map[string]interface{}{"side_under_test": side, "mutation": label, "case": caseID}
		switch {
		case p != nil:
			wit["panic"], wit["stack"] = fmt.Sprint(p), c15Trim(stack)
			_, frame := c15TopFrame("panic: " + fmt.Sprint(p) + "\n\ngoroutine 1 [running]:\n" + stack)
			wit["top_frame"] = frame
			c.Violation("rlpx-handshake-panic "+side+" "+mut, wit)
		case mustFail && e == nil:
			c.Violation("rlpx-handshake-corrupt-message-accepted "+side+" "+mut, wit)
		default:
			n++
			c.SetAdd("handshake_outcomes", side+" "+mut+": "+c15ErrClass(e))
		}
	}
	switch mut {
	case "control":
	case "auth-bits":
		for _, bit := range bitsOf(len(h.auth) * 8) {
			e, p, st := c15TryReceiver(h.kR, c15FlipBit(h.auth, bit))
			judge("receiver", fmt.Sprintf("auth bit %d", bit), true, e, p, st)
		}
	case "auth-truncate":
		for l := 0; l < len(h.auth); l += 1 + rng.Intn(3) {
			e, p, st := c15TryReceiver(h.kR, h.auth[:l])
			judge("receiver", fmt.Sprintf("auth cut to %d bytes", l), true, e, p, st)
		}
	case "auth-random":
		for i := 0; i < 100; i++ {
			b := make([]byte, p2p.EncAuthMsgLenForVerif)
			rng.Read(b)
			if i%2 == 0 {
				b[0] = 4
			}
			e, p, st := c15TryReceiver(h.kR, b)
			judge("receiver", "random bytes", true, e, p, st)
		}
	case "auth-forged":
		// the attacker knows the node's public key and encrypts ANY plaintext to it
		pubR := ecies.ImportECDSAPublic(&h.kR.PublicKey)
		plainLen := p2p.EncAuthMsgLenForVerif - (65 + 16 + 32)
		genuine := func() []byte {
			// signature || sha3(ephemeral pub) || static pub || nonce || flag, as the specification says
			eph := c15Key(rng)
			nonce := make([]byte, 32)
			rng.Read(nonce)
			token, _ := ecies.ImportECDSA(h.kI).GenerateShared(pubR, 16, 16)
			sig, _ := crypto.Sign(c15XorBytes(token, nonce), eph)
			msg := append([]byte(nil), sig...)
			msg = append(msg, crypto.Keccak256(crypto.FromECDSAPub(&eph.PublicKey)[1:])...)
			msg = append(msg, crypto.FromECDSAPub(&h.kI.PublicKey)[1:]...)
			msg = append(msg, nonce...)
			return append(msg, 0)
		}
		for i := 0; i < 60; i++ {
			pt := genuine()
			label := ""
			switch i % 12 {
			case 0:
				label = "well-formed (control)"
			case 1:
				rng.Read(pt)
				label = "random plaintext"
			case 2:
				copy(pt[:65], make([]byte, 65))
				label = "zero signature"
			case 3:
				rng.Read(pt[:64])
				label = "random r,s"
			case 4:
				pt[64] = byte(2 + rng.Intn(254))
				label = "recovery id out of range"
			case 5:
				copy(pt[65+32:65+32+64], make([]byte, 64))
				label = "zero static public key"
			case 6:
				rng.Read(pt[65+32 : 65+32+64])
				label = "static public key not on the curve"
			case 7:
				copy(pt[65+32:], crypto.FromECDSAPub(&c15Key(rng).PublicKey)[1:])
				label = "static public key of someone else"
			case 8:
				copy(pt[len(pt)-33:len(pt)-1], make([]byte, 32))
				label = "zero nonce"
			case 9:
				pt[len(pt)-1] = byte(1 + rng.Intn(255))
				label = "token flag set"
			case 10:
				for j := 0; j < 32; j++ {
					pt[j] = 0xff
				}
				label = "r above the group order"
			case 11:
				for j := 32; j < 64; j++ {
					pt[j] = 0xff
				}
				label = "s above the group order"
			}
			if len(pt) != plainLen {
				c.Inconclusive("rlpx hs: plaintext length mismatch")
				return
			}
			ct, err := ecies.Encrypt(rng, pubR, pt, nil, nil)
			if err != nil {
				continue
			}
			e, p, st := c15TryReceiver(h.kR, ct)
			if i%12 == 0 && (e != nil || p != nil) {
				c.Inconclusive(fmt.Sprintf("rlpx hs control: independently built auth message not accepted: %v %v", e, p))
				continue
			}
			judge("receiver", "validly encrypted auth: "+label, false, e, p, st)
			c.SetAdd("forged_auth_outcomes", label+": "+c15ErrClass(e))
		}
	case "resp-bits":
		for _, bit := range bitsOf(len(h.resp) * 8) {
			e, p, st := c15TryInitiator(h.kI, idR, c15FlipBit(h.resp, bit))
			judge("initiator", fmt.Sprintf("response bit %d", bit), true, e, p, st)
		}
	case "resp-truncate":
		for l := 0; l < len(h.resp); l += 1 + rng.Intn(3) {
			e, p, st := c15TryInitiator(h.kI, idR, h.resp[:l])
			judge("initiator", fmt.Sprintf("response cut to %d bytes", l), true, e, p, st)
		}
	case "resp-random":
		for i := 0; i < 100; i++ {
			b := make([]byte, p2p.EncAuthRespLenForVerif)
			rng.Read(b)
			if i%2 == 0 {
				b[0] = 4
			}
			e, p, st := c15TryInitiator(h.kI, idR, b)
			judge("initiator", "random bytes", true, e, p, st)
		}
	case "resp-forged":
		// the dialled (hostile) node learns our public key from the auth message and encrypts ANY plaintext to it
		pubI := ecies.ImportECDSAPublic(&h.kI.PublicKey)
		plainLen := p2p.EncAuthRespLenForVerif - (65 + 16 + 32)
		for i := 0; i < 40; i++ {
			pt := make([]byte, plainLen)
			copy(pt, crypto.FromECDSAPub(&c15Key(rng).PublicKey)[1:])
			rng.Read(pt[64:96])
			label := ""
			switch i % 5 {
			case 0:
				label = "well-formed (control)"
			case 1:
				rng.Read(pt[:64])
				label = "ephemeral public key not on the curve"
			case 2:
				copy(pt[:64], make([]byte, 64))
				label = "zero ephemeral public key"
			case 3:
				rng.Read(pt)
				label = "random plaintext"
			case 4:
				pt[plainLen-1] = byte(1 + rng.Intn(255))
				label = "token flag set"
			}
			ct, err := ecies.Encrypt(rng, pubI, pt, nil, nil)
			if err != nil {
				continue
			}
			e, p, st := c15TryInitiator(h.kI, idR, ct)
			if i%5 == 0 && (e != nil || p != nil) {
				c.Inconclusive(fmt.Sprintf("rlpx hs control: independently built response not accepted: %v %v", e, p))
				continue
			}
			judge("initiator", "validly encrypted response: "+label, false, e, p, st)
			if p == nil {
				c.SetAdd("forged_resp_outcomes", label+": "+c15ErrClass(e))
			} else {
				c.SetAdd("forged_resp_outcomes", label+": PANIC")
			}
		}
	}
	if n > 0 {
		c.Distinct("rlpx handshake " + mut + ": all mutants handled without panic / acceptance")
	}
	c.Count("rlpx_handshake_mutants", n)
}
