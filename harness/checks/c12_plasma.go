package checks

// C12 — plasma and proof-of-work: no block is accepted without paying its cost.
//
// Two monitors.
//
// (1) PoW oracle. The number the statement talks about is re-derived here
// from the pre-image: v = little-endian uint64 of the first 8 bytes of
// SHA3-256(nonce ‖ SHA3-256(address ‖ previousHash)); a claim of difficulty d
// is honoured only if v > 2^64 − ⌊2^64/d⌋ (math/big; equality: no side taken).
// pow.CheckPoWNonce is compared with it over the whole uint64 range.
//
// (2) Plasma accounting on real nodes (simnet). Every user block that a node
// ACCEPTS (supervisor + verifier + pool) is judged against a reference that
// shares nothing with vm/: literal cost table, fusion entries scanned from the
// plasma contract storage at the acknowledged momentum, FusedPlasma summed over
// the account's pooled ancestors, and the PoW oracle of (1).
//
// This file is part 1: registration, literal tables, PoW oracle and PoW cases.
// Part 2 (c12_plasma_world.go) has the node-level monitor and its workloads.

import (
	"encoding/hex"
	"fmt"
	"math/big"
	"math/rand"
	"strings"
	"sync"

	"golang.org/x/crypto/sha3"

	"github.com/zenon-network/go-zenon/chain/nom"
	"github.com/zenon-network/go-zenon/common/types"
	"github.com/zenon-network/go-zenon/pow"

	"verif/harness/fw"
)

func init() {
	fw.Register(&fw.Check{
		ID:    "C12",
		Level: "exploration",
		Rule: "pow:* cases compare pow.CheckPoWNonce with a math/big threshold over (difficulty, nonce) pairs: fixed difficulties 0..64, 2^k-1/2^k/2^k+1 for k<=63, plasma-conversion boundaries, " +
			"[2^63,2^64) sampled densely, and for every random nonce the exact boundary difficulty d* (largest honoured) with d*-1, d*, d*+1 so both outcomes occur at every scale; " +
			"acct:* cases run real nodes, fuse QSR for fresh accounts (0 / exactly one block / just below / exactly / plenty / above cap), and offer user blocks of every kind " +
			"(receive, send, send with data, ~30 embedded-contract methods) with explicit FusedPlasma/Difficulty/Nonce claims placed at, one below and one above each boundary (base cost, available fused plasma, block cap), " +
			"in runs of 1-12 unconfirmed blocks, through GenerateFromTemplate, ApplyBlock and ChainBridge.AddAccountBlocks; every ACCEPTED block is judged; " +
			"distinct_nontrivial counts distinct (difficulty bit-length, real verdict, oracle verdict) triples and distinct (block kind, claim shape, pool depth class, outcome) tuples actually observed",
		Cases:       c12Cases,
		Run:         c12Run,
		MinDistinct: 60,
		Assumptions: []string{
			"exact equality of the PoW value with the threshold (probability 2^-64 per sample) is not judged",
			"'QSR fused for the account' is read at the block's acknowledged momentum (sum of fusion entries in the plasma contract storage; the larger of that and the contract's own aggregate if they ever differ)",
			"'unconfirmed blocks' are the account's pooled ancestors of the offered block on the judging node",
			"base cost of a receive block is the flat base cost whatever its data; a send to an embedded address with an unknown selector has no defined cost and is judged only on the other three requirements",
			"only the pre-spork (genesis) contract set is exercised; blocks delivered inside a peer's momentum go through the same ApplyBlock path and are not crafted separately",
		},
	})
}

// ---------------------------------------------------------------------------
// literal reference tables (re-derived by hand from vm/constants, not imported)

const (
	c12Base          = 21000    // plain send, or any receive
	c12PerByte       = 68       // per byte of data on a send to a user address
	c12CallSimple    = 52500    // 2.5 x base
	c12CallResponse  = 73500    // 3.5 x base
	c12CallDouble    = 94500    // 4.5 x base
	c12CallCollect   = 126000   // CollectReward before the accelerator spork: simple + with-response
	c12Cap           = 10500000 // per-block cap = 5000 fusion units x 2100
	c12UnitQsr       = 100000000
	c12UnitPlasma    = 2100
	c12MaxUnits      = 5000
	c12DiffPerPlasma = 1500
	c12MaxPowPlasma  = 94500
	c12MaxPowDiff    = 141750000 // 94500 x 1500
	c12MaxDataLen    = 16384
)

// cost of a call by (contract, method signature); selectors are derived below with our own SHA3.
var c12CostTable = []struct {
	contract string
	sig      string
	cost     uint64
}{
	{"z1qxemdeddedxplasmaxxxxxxxxxxxxxxxxsctrp", "Fuse(address)", c12CallSimple},
	{"z1qxemdeddedxplasmaxxxxxxxxxxxxxxxxsctrp", "CancelFuse(hash)", c12CallResponse},

	{"z1qxemdeddedxpyllarxxxxxxxxxxxxxxxsy3fmg", "Register(string,address,address,uint8,uint8)", c12CallSimple},
	{"z1qxemdeddedxpyllarxxxxxxxxxxxxxxxsy3fmg", "RegisterLegacy(string,address,address,uint8,uint8,string,string)", c12CallSimple},
	{"z1qxemdeddedxpyllarxxxxxxxxxxxxxxxsy3fmg", "Revoke(string)", c12CallResponse},
	{"z1qxemdeddedxpyllarxxxxxxxxxxxxxxxsy3fmg", "UpdatePillar(string,address,address,uint8,uint8)", c12CallSimple},
	{"z1qxemdeddedxpyllarxxxxxxxxxxxxxxxsy3fmg", "Delegate(string)", c12CallSimple},
	{"z1qxemdeddedxpyllarxxxxxxxxxxxxxxxsy3fmg", "Undelegate()", c12CallSimple},
	{"z1qxemdeddedxpyllarxxxxxxxxxxxxxxxsy3fmg", "Update()", c12CallSimple},
	{"z1qxemdeddedxpyllarxxxxxxxxxxxxxxxsy3fmg", "DepositQsr()", c12CallSimple},
	{"z1qxemdeddedxpyllarxxxxxxxxxxxxxxxsy3fmg", "WithdrawQsr()", c12CallResponse},
	{"z1qxemdeddedxpyllarxxxxxxxxxxxxxxxsy3fmg", "CollectReward()", c12CallCollect},

	{"z1qxemdeddedxt0kenxxxxxxxxxxxxxxxxh9amk0", "IssueToken(string,string,string,uint256,uint256,uint8,bool,bool,bool)", c12CallResponse},
	{"z1qxemdeddedxt0kenxxxxxxxxxxxxxxxxh9amk0", "Mint(tokenStandard,uint256,address)", c12CallResponse},
	{"z1qxemdeddedxt0kenxxxxxxxxxxxxxxxxh9amk0", "Burn()", c12CallSimple},
	{"z1qxemdeddedxt0kenxxxxxxxxxxxxxxxxh9amk0", "UpdateToken(tokenStandard,address,bool,bool)", c12CallSimple},

	{"z1qxemdeddedxsentynelxxxxxxxxxxxxxwy0r2r", "Register()", c12CallSimple},
	{"z1qxemdeddedxsentynelxxxxxxxxxxxxxwy0r2r", "Revoke()", c12CallDouble},
	{"z1qxemdeddedxsentynelxxxxxxxxxxxxxwy0r2r", "Update()", c12CallSimple},
	{"z1qxemdeddedxsentynelxxxxxxxxxxxxxwy0r2r", "DepositQsr()", c12CallSimple},
	{"z1qxemdeddedxsentynelxxxxxxxxxxxxxwy0r2r", "WithdrawQsr()", c12CallResponse},
	{"z1qxemdeddedxsentynelxxxxxxxxxxxxxwy0r2r", "CollectReward()", c12CallCollect},

	{"z1qxemdeddedxswapxxxxxxxxxxxxxxxxxxl4yww", "RetrieveAssets(string,string)", c12CallDouble},

	{"z1qxemdeddedxstakexxxxxxxxxxxxxxxxjv8v62", "Stake(int64)", c12CallSimple},
	{"z1qxemdeddedxstakexxxxxxxxxxxxxxxxjv8v62", "Cancel(hash)", c12CallResponse},
	{"z1qxemdeddedxstakexxxxxxxxxxxxxxxxjv8v62", "Update()", c12CallSimple},
	{"z1qxemdeddedxstakexxxxxxxxxxxxxxxxjv8v62", "CollectReward()", c12CallCollect},

	{"z1qxemdeddedxsp0rkxxxxxxxxxxxxxxxx956u48", "CreateSpork(string,string)", c12CallSimple},
	{"z1qxemdeddedxsp0rkxxxxxxxxxxxxxxxx956u48", "ActivateSpork(hash)", c12CallSimple},

	{"z1qxemdeddedxlyquydytyxxxxxxxxxxxxflaaae", "Update()", c12CallSimple},
	{"z1qxemdeddedxlyquydytyxxxxxxxxxxxxflaaae", "Donate()", c12CallSimple},

	{"z1qxemdeddedxaccelerat0rxxxxxxxxxxp4tk22", "Donate()", c12CallSimple},
}

var (
	c12CostOnce  sync.Once
	c12CostIndex map[string]int // contract|selector-hex → index in c12CostTable
)

func c12CostLookup(to types.Address, data []byte) (label string, cost uint64, ok bool) {
	c12CostOnce.Do(func() {
		c12CostIndex = map[string]int{}
		for i, e := range c12CostTable {
			h := sha3.Sum256([]byte(e.sig))
			c12CostIndex[e.contract+"|"+hex.EncodeToString(h[:4])] = i
		}
	})
	if len(data) < 4 {
		return "", 0, false
	}
	i, found := c12CostIndex[to.String()+"|"+hex.EncodeToString(data[:4])]
	if !found {
		return "", 0, false
	}
	e := c12CostTable[i]
	return "call " + e.contract[13:21] + "." + e.sig, e.cost, true
}

// c12PowPlasma: plasma earned by an honoured claim of difficulty d.
func c12PowPlasma(d uint64) uint64 {
	if d == 0 {
		return 0
	}
	if d > c12MaxPowDiff {
		return c12MaxPowPlasma
	}
	return d / c12DiffPerPlasma
}

// c12QsrPlasma: plasma provided by a fused QSR amount.
func c12QsrPlasma(amount *big.Int) uint64 {
	if amount == nil || amount.Sign() <= 0 {
		return 0
	}
	units := new(big.Int).Quo(amount, big.NewInt(c12UnitQsr))
	if units.Cmp(big.NewInt(c12MaxUnits)) > 0 {
		units = big.NewInt(c12MaxUnits)
	}
	return units.Uint64() * c12UnitPlasma
}

// ---------------------------------------------------------------------------
// reporting with a per-process cap per signature (F6-like defects fire on every sample)

var (
	c12RepMu sync.Mutex
	c12Rep   = map[string]int{}
)

func c12Report(c *fw.C, sig string, detail interface{}) {
	c.Count("violating_observations "+sig, 1)
	c12RepMu.Lock()
	c12Rep[sig]++
	n := c12Rep[sig]
	c12RepMu.Unlock()
	if n <= 2 {
		c.Violation(sig, detail)
	}
}

// ---------------------------------------------------------------------------
// PoW oracle

var c12Two64 = new(big.Int).Lsh(big.NewInt(1), 64)

type c12PowCtx struct {
	addr  types.Address
	prev  types.Hash
	inner [32]byte
}

func c12NewPowCtx(addr types.Address, prev types.Hash) *c12PowCtx {
	pre := make([]byte, 0, 52)
	pre = append(pre, addr[:]...)
	pre = append(pre, prev[:]...)
	return &c12PowCtx{addr: addr, prev: prev, inner: sha3.Sum256(pre)}
}

// value is the 64-bit number the claim is about.
func (p *c12PowCtx) value(nonce [8]byte) uint64 {
	var buf [40]byte
	copy(buf[:8], nonce[:])
	copy(buf[8:], p.inner[:])
	out := sha3.Sum256(buf[:])
	var v uint64
	for i := 0; i < 8; i++ {
		v |= uint64(out[i]) << (8 * uint(i))
	}
	return v
}

// c12Threshold = 2^64 − ⌊2^64/d⌋ for d ≥ 1.
func c12Threshold(d uint64) *big.Int {
	q := new(big.Int).Quo(c12Two64, new(big.Int).SetUint64(d))
	return q.Sub(c12Two64, q)
}

// c12PowVerdict: +1 the value is above the threshold (honoured), −1 below (not honoured), 0 no side (equality, or d == 0: no claim).
func c12PowVerdict(value uint64, d uint64) int {
	if d == 0 {
		return 0
	}
	return new(big.Int).SetUint64(value).Cmp(c12Threshold(d))
}

// c12BoundaryDifficulty: the largest d for which value is still ≥ threshold(d): ⌊2^64/(2^64−value)⌋, clamped to uint64.
func c12BoundaryDifficulty(value uint64) uint64 {
	gap := new(big.Int).Sub(c12Two64, new(big.Int).SetUint64(value))
	q := new(big.Int).Quo(c12Two64, gap)
	if !q.IsUint64() {
		return ^uint64(0)
	}
	return q.Uint64()
}

func c12Range(d uint64) string {
	if d >= 1<<63 {
		return "d>=2^63"
	}
	return "d<2^63"
}

func c12BitLen(d uint64) int {
	n := 0
	for d != 0 {
		n++
		d >>= 1
	}
	return n
}

// c12PowCompare runs one (difficulty, nonce) pair through the real function and the oracle.
func c12PowCompare(c *fw.C, p *c12PowCtx, d uint64, nonce [8]byte) {
	blk := &nom.AccountBlock{Address: p.addr, PreviousHash: p.prev, Difficulty: d}
	blk.Nonce.Data = nonce
	real := pow.CheckPoWNonce(blk)
	v := p.value(nonce)
	want := c12PowVerdict(v, d)
	c.Eval(1)
	rs, os := "reject", "reject"
	if real {
		rs = "accept"
	}
	switch {
	case d == 0:
		os = "noclaim"
	case want > 0:
		os = "accept"
	case want == 0:
		os = "equal"
	}
	c.Distinct(fmt.Sprintf("pow bits=%02d real=%s oracle=%s", c12BitLen(d), rs, os))
	if d == 0 || want == 0 {
		return
	}
	if real == (want > 0) {
		return
	}
	sig := "pow-rejects-above-threshold " + c12Range(d)
	if real {
		sig = "pow-accepts-below-threshold " + c12Range(d)
	}
	c12Report(c, sig, map[string]interface{}{
		"address": p.addr.String(), "previousHash": p.prev.String(), "difficulty": fmt.Sprintf("%d", d),
		"nonce": hex.EncodeToString(nonce[:]), "value": fmt.Sprintf("%d", v), "threshold": c12Threshold(d).String(),
		"real_CheckPoWNonce": real, "oracle_honoured": want > 0,
	})
}

func c12FixedDifficulties() []uint64 {
	var l []uint64
	for d := uint64(0); d <= 64; d++ {
		l = append(l, d)
	}
	for k := uint(7); k <= 63; k++ {
		l = append(l, (uint64(1)<<k)-1, uint64(1)<<k, (uint64(1)<<k)+1)
	}
	for _, p := range []uint64{1, 2, 14, 68, 1000, 20999, 21000, 21001, 52500, 73500, 94499, 94500, 94501, 126000, 10500000} {
		l = append(l, p*c12DiffPerPlasma-1, p*c12DiffPerPlasma, p*c12DiffPerPlasma+1)
	}
	l = append(l, 100, 255, 256, 1000, 1499, 1500, 1501, 4095, 4096, 4097, ^uint64(0), ^uint64(0)-1, ^uint64(0)-2)
	return l
}

func c12RandNonce(r *rand.Rand) [8]byte {
	var n [8]byte
	v := r.Uint64()
	for i := 0; i < 8; i++ {
		n[i] = byte(v >> (8 * uint(i)))
	}
	return n
}

func c12RandCtx(r *rand.Rand, zeroPrev bool) *c12PowCtx {
	var a types.Address
	var h types.Hash
	r.Read(a[:])
	a[0] = 0 // user address
	if !zeroPrev {
		r.Read(h[:])
	}
	return c12NewPowCtx(a, h)
}

func c12CheckDataHash(c *fw.C, p *c12PowCtx) {
	real := pow.GetAccountBlockHash(&nom.AccountBlock{Address: p.addr, PreviousHash: p.prev})
	c.Eval(1)
	if real != types.Hash(p.inner) {
		c12Report(c, "pow-data-hash-not-sha3(address,previous)", map[string]interface{}{
			"address": p.addr.String(), "previousHash": p.prev.String(), "real": real.String(), "expected": hex.EncodeToString(p.inner[:]),
		})
	}
}

func c12RunPow(c *fw.C, kind string, r *rand.Rand) {
	scale := 1
	switch kind {
	case "fixed":
		ctxs := []*c12PowCtx{c12RandCtx(r, false), c12RandCtx(r, true), c12RandCtx(r, false)}
		for _, p := range ctxs {
			c12CheckDataHash(c, p)
		}
		for _, d := range c12FixedDifficulties() {
			for j := 0; j < 180*scale; j++ {
				c12PowCompare(c, ctxs[j%len(ctxs)], d, c12RandNonce(r))
			}
		}
	case "boundary":
		p := c12RandCtx(r, r.Intn(4) == 0)
		c12CheckDataHash(c, p)
		for j := 0; j < 16000*scale; j++ {
			if j%4000 == 3999 {
				p = c12RandCtx(r, false)
			}
			nonce := c12RandNonce(r)
			ds := c12BoundaryDifficulty(p.value(nonce))
			c12PowCompare(c, p, ds, nonce)
			if ds > 1 {
				c12PowCompare(c, p, ds-1, nonce)
			}
			if ds < ^uint64(0) {
				c12PowCompare(c, p, ds+1, nonce)
			}
			// a random difficulty on a log scale around the boundary and beyond
			c12PowCompare(c, p, 1+r.Uint64()>>uint(r.Intn(64)), nonce)
		}
	case "high":
		p := c12RandCtx(r, false)
		c12CheckDataHash(c, p)
		top := uint64(1) << 63
		base := top + r.Uint64()>>1
		stride := 1 + r.Uint64()>>uint(20+r.Intn(40))
		for j := 0; j < 40000*scale; j++ {
			var d uint64
			switch j % 8 {
			case 0:
				d = top + uint64(j/8) // dense from the bottom of the range
			case 1:
				d = ^uint64(0) - uint64(j/8) // dense from the top
			case 2:
				k := uint(r.Intn(63))
				d = top + (uint64(1) << k) + uint64(r.Intn(3)) - 1
			case 3:
				k := uint(r.Intn(63))
				d = ^uint64(0) - (uint64(1) << k) + uint64(r.Intn(3)) - 1
			case 4:
				d = base + uint64(j)*stride // dense walk (wraps inside the range below)
			default:
				d = top | r.Uint64()
			}
			d |= top
			c12PowCompare(c, p, d, c12RandNonce(r))
		}
	}
}

// ---------------------------------------------------------------------------
// case list

func c12Cases(tier string, seed int64) []string {
	nFixed, nBoundary, nHigh := 12, 24, 12
	acct := map[string]int{"boundary": 28, "seq": 24, "cap": 8, "cancel": 6, "generic": 6, "realpow": 1}
	if tier == "thorough" {
		nFixed, nBoundary, nHigh = 800, 2200, 900
		acct = map[string]int{"boundary": 1400, "seq": 1200, "cap": 300, "cancel": 200, "generic": 200, "realpow": 12}
	}
	var l []string
	// the expensive real-work cases first so that they do not end up last in a shard
	for i := 0; i < acct["realpow"]; i++ {
		l = append(l, fmt.Sprintf("acct:realpow:%d", i))
	}
	for _, k := range []string{"boundary", "seq", "cap", "cancel", "generic"} {
		for i := 0; i < acct[k]; i++ {
			l = append(l, fmt.Sprintf("acct:%s:%d", k, i))
		}
	}
	for i := 0; i < nFixed; i++ {
		l = append(l, fmt.Sprintf("pow:fixed:%d", i))
	}
	for i := 0; i < nBoundary; i++ {
		l = append(l, fmt.Sprintf("pow:boundary:%d", i))
	}
	for i := 0; i < nHigh; i++ {
		l = append(l, fmt.Sprintf("pow:high:%d", i))
	}
	return l
}

func c12Run(c *fw.C, caseID string) {
	parts := strings.Split(caseID, ":")
	if len(parts) != 3 {
		c.Inconclusive("bad case id " + caseID)
		return
	}
	family, kind := parts[0], parts[1]
	r := c.Rand(caseID)
	switch family {
	case "pow":
		c12RunPow(c, kind, r)
	case "acct":
		c12RunAcct(c, kind, caseID, r)
	}
}
