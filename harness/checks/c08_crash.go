package checks

// C08 — committing or rolling back a momentum is atomic across a crash.
//
// LevelDB's write-ahead journal IS the event log of physical writes: a process kill preserves
// exactly a prefix of the bytes the process had written to it. For every monitored commit /
// rollback on a real node the checker copies the DB directory before (S0) and after (S1), finds
// the journal records the operation appended, and builds EVERY crash image "S0 + first k records"
// (k = 0..n) plus images cut in the middle of each record. Each image is reopened with the real
// manager and chain; its raw key space must equal S0's or S1's, and re-delivering the momentum (or a
// competing one) must end in the same raw state as a crash-free node. A second family of cases
// validates the image model against reality: a grand-child process commits/rolls back momentums
// and is SIGKILLed at an arbitrary moment; the directory it leaves must reopen to one of the
// states between whole operations, and continue identically.

import (
	"bytes"
	"encoding/binary"
	"fmt"
	"io"
	"os"
	"os/exec"
	"path/filepath"
	"sort"
	"strings"
	"syscall"
	"time"

	"github.com/syndtr/goleveldb/leveldb/journal"

	g "github.com/zenon-network/go-zenon/chain/genesis/mock"
	"github.com/zenon-network/go-zenon/chain/nom"
	"github.com/zenon-network/go-zenon/common/types"
	"github.com/zenon-network/go-zenon/vm/embedded/definition"

	"math/rand"

	"verif/harness/fw"
	"verif/harness/simnet"
)

func init() {
	// grand-child mode: perform operations until killed (see c08Kill)
	if dir := os.Getenv("VERIF_C08_VICTIM_DIR"); dir != "" {
		c08Victim(dir, os.Getenv("VERIF_C08_SOURCE_DIR"))
		os.Exit(0)
	}
	// grand-child mode: a follower that commits the momentum at which a spork becomes enforced (see c08SporkCommit)
	if dir := os.Getenv("VERIF_C08_SPORK_DIR"); dir != "" {
		c08SporkVictim(dir, os.Getenv("VERIF_C08_SPORK_FILE"), os.Getenv("VERIF_C08_SPORK_IMPLEMENTED"))
		os.Exit(0)
	}
	fw.Register(&fw.Check{
		ID:    "C08",
		Level: "fault_enumeration",
		Rule: "operations = commits of real momentums (empty, 1..100 account blocks, contract batches, the genesis insert, the momentum at which a spork becomes enforced — on a node that implements it and on one that does not and halts) and single- and multi-momentum rollbacks on real nodes; for each operation EVERY journal-record boundary " +
			"and one cut inside every record is turned into a crash image, reopened with the real code and compared raw with the states before/after, then continued; kill:* cases SIGKILL a real process mid-run. " +
			"distinct_nontrivial counts distinct crash images (operation kind, momentum size class, record index, cut position class) that reopened and were compared",
		Cases:       c08Cases,
		Run:         c08Run,
		MinDistinct: 6,
		Assumptions: []string{
			"process crash, not machine crash: bytes written to the journal file survive (the node never fsyncs; the statement says 'process dies')",
			"goleveldb's journal recovery is trusted to drop a torn trailing record",
			"an operation during which LevelDB rotates its journal (memtable flush) is discarded as inconclusive",
		},
	})
}

func c08Cases(tier string, seed int64) []string {
	n, k := 24, 8
	if tier == "thorough" {
		n, k = 1200, 1200
	}
	var l []string
	for i := 0; i < n; i++ {
		l = append(l, fmt.Sprintf("images:%d", i))
	}
	l = append(l, "images:genesis")
	ns := 2
	if tier == "thorough" {
		ns = 48
	}
	for i := 0; i < ns; i++ {
		l = append(l, fmt.Sprintf("images:spork:%d", i))
	}
	for i := 0; i < k; i++ {
		l = append(l, fmt.Sprintf("kill:%d", i))
	}
	return l
}

func c08Run(c *fw.C, caseID string) {
	if strings.HasPrefix(caseID, "kill:") {
		c08Kill(c, caseID)
		return
	}
	if strings.HasPrefix(caseID, "images:spork:") {
		c08SporkCommit(c, caseID)
		return
	}
	c08Images(c, caseID)
}

func c08copyDir(src, dst string) error {
	if err := os.MkdirAll(dst, 0o755); err != nil {
		return err
	}
	ents, err := os.ReadDir(src)
	if err != nil {
		return err
	}
	for _, e := range ents {
		if e.IsDir() {
			continue
		}
		in, err := os.Open(filepath.Join(src, e.Name()))
		if err != nil {
			return err
		}
		out, err := os.Create(filepath.Join(dst, e.Name()))
		if err != nil {
			in.Close()
			return err
		}
		_, err = io.Copy(out, in)
		in.Close()
		out.Close()
		if err != nil {
			return err
		}
	}
	return nil
}

func c08journalFiles(dir string) []string {
	l, _ := filepath.Glob(filepath.Join(dir, "*.log"))
	sort.Strings(l)
	return l
}

// recordEnds parses the LevelDB journal chunk format and returns the file offsets at which complete records end.
func c08RecordEnds(data []byte) []int {
	const blockSize = 32768
	var ends []int
	off := 0
	for off < len(data) {
		blockLeft := blockSize - off%blockSize
		if blockLeft < 7 {
			off += blockLeft // trailer padding
			continue
		}
		if off+7 > len(data) {
			break
		}
		length := int(binary.LittleEndian.Uint16(data[off+4 : off+6]))
		typ := data[off+6]
		if typ == 0 && length == 0 {
			break // zeroed tail
		}
		if off+7+length > len(data) {
			break
		}
		off += 7 + length
		if typ == 1 || typ == 4 { // full or last chunk
			ends = append(ends, off)
		}
	}
	return ends
}

func c08CountRecords(data []byte) int {
	r := journal.NewReader(bytes.NewReader(data), nil, false, true)
	n := 0
	for {
		rr, err := r.Next()
		if err != nil {
			break
		}
		if _, err := io.Copy(io.Discard, rr); err != nil {
			break
		}
		n++
	}
	return n
}

func c08SizeClass(n int) string {
	switch {
	case n == 0:
		return "empty"
	case n <= 3:
		return "1-3"
	case n <= 20:
		return "4-20"
	default:
		return ">20"
	}
}

type c08Op struct {
	kind   string // commit | rollback | genesis
	blocks int
	// redeliver: the momentum(s) to insert on the reopened image to continue
	redeliver []*nom.DetailedMomentum
	competing []*nom.DetailedMomentum
}

func c08Images(c *fw.C, caseID string) {
	r := c.Rand(caseID)
	base := c.ScratchDir("c08")
	defer os.RemoveAll(base)

	if caseID == "images:genesis" {
		// the genesis insert: S0 = empty directory created by opening and closing LevelDB
		// (an image of an empty store must reopen and accept the genesis)
		N := simnet.Open("G", base+"/G", simnet.MockGenesis(), nil)
		N.Stop()
		// dumping opens LevelDB, which replays and rotates the journal: dump a copy, keep the original files
		dumpDir := base + "/G-dump"
		if err := c08copyDir(N.Dir, dumpDir); err != nil {
			c.Inconclusive(err.Error())
			return
		}
		raw1, err := simnet.RawDump(dumpDir)
		os.RemoveAll(dumpDir)
		if err != nil {
			c.Inconclusive("cannot dump: " + err.Error())
			return
		}
		jf := c08journalFiles(N.Dir)
		if len(jf) != 1 {
			c.Inconclusive("journal rotated during genesis insert")
			return
		}
		data, _ := os.ReadFile(jf[0])
		ends := c08RecordEnds(data)
		c.Count("genesis_journal_records", len(ends))
		if len(ends) == 0 {
			c.Inconclusive("the genesis insert left no journal record to cut")
			return
		}
		cuts := []int{0}
		for i, e := range ends {
			prev := 0
			if i > 0 {
				prev = ends[i-1]
			}
			cuts = append(cuts, prev+(e-prev)/2, e)
		}
		for _, cut := range cuts {
			img := fmt.Sprintf("%s/img-%d", base, cut)
			if err := c08copyDir(N.Dir, img); err != nil {
				c.Inconclusive(err.Error())
				return
			}
			_ = os.WriteFile(filepath.Join(img, filepath.Base(jf[0])), data[:cut], 0o644)
			// the image itself: exactly the empty store or exactly the store with the genesis
			if rawImg, err := simnet.RawDump(img); err == nil {
				c.Eval(1)
				if len(rawImg) != 0 && len(simnet.DiffDumps(raw1, rawImg, 1)) > 0 {
					c.Violation("crash-image-neither-before-nor-after genesis", map[string]interface{}{"cut": cut, "records": len(ends), "keys_in_image": len(rawImg), "keys_after": len(raw1), "diffs": simnet.DiffDumps(raw1, rawImg, 3)})
					os.RemoveAll(img)
					continue
				}
			}
			ok := c08Reopen(c, img, func(n *simnet.Node) {
				// after chain.Init the store must hold exactly the genesis state
			})
			if ok {
				raw, err := simnet.RawDump(img)
				c.Eval(1)
				c.Distinct(fmt.Sprintf("genesis/cut=%d", cut))
				if err != nil || len(simnet.DiffDumps(raw1, raw, 3)) > 0 {
					c.Violation("crash-image-genesis-insert-not-recovered", map[string]interface{}{"cut": cut, "records": len(ends), "diffs": simnet.DiffDumps(raw1, raw, 3)})
				}
			}
			os.RemoveAll(img)
		}
		return
	}

	P := simnet.Open("P", base+"/P", simnet.MockGenesis(), g.PillarKeys)
	defer P.Stop()
	w := simnet.NewWorkload(rand.New(rand.NewSource(r.Int63())), P)
	// a competing producer for "deliver a competing momentum after the crash"
	for i := 0; i < 8+r.Intn(20); i++ {
		w.Step(5)
		if _, err := P.Produce(0); err != nil {
			c.Inconclusive("producer: " + err.Error())
			return
		}
	}
	Q := simnet.Open("Q", base+"/Q", simnet.MockGenesis(), g.PillarKeys)
	defer Q.Stop()
	if err := Q.SyncFrom(P, 64); err != nil {
		c.Inconclusive(err.Error())
		return
	}
	// F is the node under observation (a follower: its only LevelDB writes are the monitored operations)
	F := simnet.Open("F", base+"/F", simnet.MockGenesis(), nil)
	defer F.Stop()
	if err := F.SyncFrom(P, 64); err != nil {
		c.Inconclusive(err.Error())
		return
	}
	nOps := 3
	for op := 0; op < nOps; op++ {
		// next momentum on P with a seeded number of blocks
		burst := []int{0, 1, 3, 12, 40, 110}[r.Intn(6)]
		for i := 0; i < burst; i++ {
			w.One()
		}
		if _, err := P.Produce(0); err != nil {
			c.Inconclusive("producer: " + err.Error())
			return
		}
		// competing momentum at the same height from Q (different content)
		if _, err := Q.Produce(1); err != nil {
			c.Inconclusive("competing producer: " + err.Error())
			return
		}
		h := F.Height() + 1
		mP := simnet.CloneBatch(P.Range(h, h))
		kind := "commit"
		if r.Intn(3) == 0 && F.Height() > 3 {
			kind = "rollback"
		}
		s0 := fmt.Sprintf("%s/S0-%d", base, op)
		s1 := fmt.Sprintf("%s/S1-%d", base, op)
		var redeliver []*nom.DetailedMomentum
		if kind == "rollback" {
			// first commit normally, then monitor the rollback of that momentum
			if _, err := F.InsertChain(mP); err != nil {
				c.Violation("follower-refuses-producers-momentum", err.Error())
				return
			}
			if err := c08copyDir(F.Dir, s0); err != nil {
				c.Inconclusive(err.Error())
				return
			}
			prev, _ := F.Chain.GetFrontierMomentumStore().GetMomentumByHeight(h - 1)
			ins := F.Chain.AcquireInsert("c08 rollback")
			err := F.Chain.RollbackTo(ins, prev.Identifier())
			ins.Unlock()
			if err != nil {
				c.Violation("rollback-error", err.Error())
				return
			}
			redeliver = simnet.CloneBatch(P.Range(h, h))
		} else {
			if err := c08copyDir(F.Dir, s0); err != nil {
				c.Inconclusive(err.Error())
				return
			}
			if _, err := F.InsertChain(mP); err != nil {
				c.Violation("follower-refuses-producers-momentum", err.Error())
				return
			}
			redeliver = simnet.CloneBatch(P.Range(h, h))
		}
		if err := c08copyDir(F.Dir, s1); err != nil {
			c.Inconclusive(err.Error())
			return
		}
		c08CheckOp(c, base, op, kind, len(mP[0].AccountBlocks), s0, s1, redeliver, simnet.CloneBatch(Q.Range(h, h)), P, h)
		os.RemoveAll(s0)
		os.RemoveAll(s1)
		// keep F on P's chain for the next operation
		if F.Height() < P.Height() {
			if err := F.SyncFrom(P, 8); err != nil {
				c.Violation("follower-refuses-producers-momentum", err.Error())
				return
			}
		}
		if err := Q.SyncFrom(P, 8); err != nil {
			// Q produced a competing momentum at height h; P's chain is not longer → Q keeps its own; rebuild Q
			Q.Stop()
			os.RemoveAll(Q.Dir)
			Q = simnet.Open("Q", Q.Dir, simnet.MockGenesis(), g.PillarKeys)
			if err := Q.SyncFrom(P, 64); err != nil {
				c.Inconclusive(err.Error())
				return
			}
		}
	}
	// a rollback of SEVERAL momentums in one call (what a reorganisation does): every crash point must leave exactly
	// one of the states "k momentums rolled back", k = 0..d — frontier, keys and the stored redo/undo entries agreeing
	if r.Intn(2) == 0 {
		d := 2 + r.Intn(3)
		h := F.Height() + 1
		for i := 0; i < d; i++ {
			for k := 0; k < []int{0, 2, 9}[r.Intn(3)]; k++ {
				w.One()
			}
			if _, err := P.Produce(0); err != nil {
				c.Inconclusive("producer: " + err.Error())
				return
			}
		}
		if F.Height() < P.Height() {
			if err := F.SyncFrom(P, 8); err != nil {
				c.Violation("follower-refuses-producers-momentum", err.Error())
				return
			}
		}
		top := F.Height()
		h = top - uint64(d) + 1
		s0 := fmt.Sprintf("%s/S0-deep", base)
		s1 := fmt.Sprintf("%s/S1-deep", base)
		if err := c08copyDir(F.Dir, s0); err != nil {
			c.Inconclusive(err.Error())
			return
		}
		// the admissible intermediate states, from crash-free partial rollbacks of copies
		c08ExtraAdmissible = nil
		for k := 1; k < d; k++ {
			tmp := fmt.Sprintf("%s/mid-%d", base, k)
			if err := c08copyDir(s0, tmp); err != nil {
				c.Inconclusive(err.Error())
				return
			}
			okk := c08Reopen(c, tmp, func(n *simnet.Node) {
				m, _ := n.Chain.GetFrontierMomentumStore().GetMomentumByHeight(top - uint64(k))
				ins := n.Chain.AcquireInsert("c08 partial rollback")
				_ = n.Chain.RollbackTo(ins, m.Identifier())
				ins.Unlock()
			})
			if raw, err := simnet.RawDump(tmp); okk && err == nil {
				c08ExtraAdmissible = append(c08ExtraAdmissible, raw)
			}
			os.RemoveAll(tmp)
		}
		prev, _ := F.Chain.GetFrontierMomentumStore().GetMomentumByHeight(h - 1)
		ins := F.Chain.AcquireInsert("c08 deep rollback")
		err := F.Chain.RollbackTo(ins, prev.Identifier())
		ins.Unlock()
		if err != nil {
			c.Violation("rollback-error", err.Error())
			return
		}
		if err := c08copyDir(F.Dir, s1); err != nil {
			c.Inconclusive(err.Error())
			return
		}
		redeliver := simnet.CloneBatch(P.Range(h, top))
		c08CheckOp(c, base, nOps, fmt.Sprintf("rollback-of-%d", d), len(redeliver[0].AccountBlocks), s0, s1, redeliver, redeliver, P, h)
		c08ExtraAdmissible = nil
		c.Count("multi_momentum_rollbacks_monitored", 1)
		os.RemoveAll(s0)
		os.RemoveAll(s1)
	}
}

// c08ExtraAdmissible: further admissible crash states of the operation being checked (intermediate states of a
// multi-momentum rollback). An image equal to one of them is fine; the continuation is then not compared.
var c08ExtraAdmissible []map[string]string

// c08Reopen opens an image with the real manager + chain (chain.Init), runs f, stops. A panic while
// reopening is a violation (the store cannot be recovered).
func c08Reopen(c *fw.C, dir string, f func(n *simnet.Node)) (ok bool) {
	defer func() {
		if r := recover(); r != nil {
			c.Violation("crash-image-cannot-be-reopened", map[string]interface{}{"panic": fmt.Sprint(r)})
			ok = false
		}
	}()
	n := simnet.Open("img", dir, simnet.MockGenesis(), nil)
	defer n.Stop()
	f(n)
	return true
}

func c08CheckOp(c *fw.C, base string, op int, kind string, blocks int, s0, s1 string, redeliver, competing []*nom.DetailedMomentum, P *simnet.Node, h uint64) {
	j0, j1 := c08journalFiles(s0), c08journalFiles(s1)
	if len(j0) != 1 || len(j1) != 1 || filepath.Base(j0[0]) != filepath.Base(j1[0]) {
		c.Inconclusive("journal rotated during the operation")
		return
	}
	d0, _ := os.ReadFile(j0[0])
	d1, _ := os.ReadFile(j1[0])
	if len(d1) < len(d0) || !bytes.Equal(d1[:len(d0)], d0) {
		c.Inconclusive("journal is not an append of the previous journal")
		return
	}
	// every other file must be unchanged (no compaction in between)
	ents0, _ := os.ReadDir(s0)
	for _, e := range ents0 {
		if strings.HasSuffix(e.Name(), ".log") || e.Name() == "LOG" {
			continue
		}
		a, _ := os.ReadFile(filepath.Join(s0, e.Name()))
		b, _ := os.ReadFile(filepath.Join(s1, e.Name()))
		if !bytes.Equal(a, b) {
			c.Inconclusive("table/manifest files changed during the operation")
			return
		}
	}
	ends := c08RecordEnds(d1)
	if n := c08CountRecords(d1); n != len(ends) {
		c.Inconclusive(fmt.Sprintf("journal parser disagrees with goleveldb's reader (%d vs %d records)", len(ends), n))
		return
	}
	var newEnds []int
	for _, e := range ends {
		if e > len(d0) {
			newEnds = append(newEnds, e)
		}
	}
	c.SetAdd("journal_records_per_operation", fmt.Sprintf("%s:%d", kind, len(newEnds)))
	raw0, err0 := c08RawOfCopy(s0)
	raw1, err1 := c08RawOfCopy(s1)
	if err0 != nil || err1 != nil {
		c.Inconclusive("cannot dump S0/S1")
		return
	}
	// RawDump replays the journal into a table; work on copies from here on
	type cut struct {
		off  int
		desc string
	}
	cuts := []cut{{len(d0), "rec0"}}
	prev := len(d0)
	for i, e := range newEnds {
		cuts = append(cuts, cut{prev + (e-prev)/2, fmt.Sprintf("mid-rec%d", i+1)}, cut{prev + 3, fmt.Sprintf("hdr-rec%d", i+1)}, cut{e, fmt.Sprintf("rec%d", i+1)})
		prev = e
	}
	// the crash-free final state for the continuation: S1 for a commit; for a rollback, S0 (= committed) after re-delivery
	for ci, ct := range cuts {
		img := fmt.Sprintf("%s/img-%d-%d", base, op, ci)
		// images are built from pristine copies: S0's files + truncated journal of S1
		if err := c08copyDirFromPristine(s0, img, filepath.Base(j0[0]), d1[:ct.off]); err != nil {
			c.Inconclusive(err.Error())
			return
		}
		var cont map[string]string
		var contErr error
		useCompeting := ci%2 == 1
		ok := c08Reopen(c, img, func(n *simnet.Node) {})
		if !ok {
			os.RemoveAll(img)
			continue
		}
		raw, err := simnet.RawDump(img)
		c.Eval(1)
		c.Distinct(fmt.Sprintf("%s/%s/%s/of%d", kind, c08SizeClass(blocks), ct.desc, len(newEnds)))
		if err != nil {
			c.Violation("crash-image-cannot-be-dumped "+kind, err.Error())
			os.RemoveAll(img)
			continue
		}
		is0 := len(simnet.DiffDumps(raw0, raw, 1)) == 0
		is1 := len(simnet.DiffDumps(raw1, raw, 1)) == 0
		if !is0 && !is1 {
			mid := false
			for _, x := range c08ExtraAdmissible {
				if len(simnet.DiffDumps(x, raw, 1)) == 0 {
					mid = true
				}
			}
			if mid {
				c.Count("crash_images_equal_to_an_intermediate_rollback_state", 1)
				os.RemoveAll(img)
				continue
			}
		}
		if !is0 && !is1 {
			c.Violation(fmt.Sprintf("crash-image-neither-before-nor-after %s", kind), map[string]interface{}{
				"operation": kind, "blocks_in_momentum": blocks, "cut": ct.desc, "records_appended": len(newEnds),
				"diff_vs_before": simnet.DiffDumps(raw0, raw, 4), "diff_vs_after": simnet.DiffDumps(raw1, raw, 4)})
			os.RemoveAll(img)
			continue
		}
		// continuation: deliver the same or a competing momentum; compare with a crash-free node doing the same from that state
		deliver := redeliver
		label := "same"
		if useCompeting {
			deliver, label = competing, "competing"
		}
		ref := fmt.Sprintf("%s/ref-%d-%d", base, op, ci)
		from := s0
		if is1 && !is0 {
			from = s1
		}
		_ = c08copyDir(from, ref)
		var refRaw map[string]string
		var refErr, gotErr error
		c08Reopen(c, ref, func(n *simnet.Node) { _, refErr = n.InsertChain(simnet.CloneBatch(deliver)) })
		refRaw, _ = simnet.RawDump(ref)
		c08Reopen(c, img, func(n *simnet.Node) { _, gotErr = n.InsertChain(simnet.CloneBatch(deliver)) })
		cont, contErr = simnet.RawDump(img)
		c.Eval(1)
		if contErr != nil || (refErr == nil) != (gotErr == nil) || len(simnet.DiffDumps(refRaw, cont, 1)) > 0 {
			c.Violation(fmt.Sprintf("continuation-after-crash-differs %s %s", kind, label), map[string]interface{}{
				"cut": ct.desc, "ref_err": fmt.Sprint(refErr), "got_err": fmt.Sprint(gotErr), "diffs": simnet.DiffDumps(refRaw, cont, 4)})
		}
		os.RemoveAll(img)
		os.RemoveAll(ref)
	}
	if op == 0 {
		c.Sample(map[string]interface{}{"operation": kind, "blocks_in_momentum": blocks, "journal_bytes_before": len(d0), "journal_bytes_after": len(d1), "records_appended": len(newEnds), "images": len(cuts)})
	}
}

// c08RawOfCopy dumps a copy of dir (opening LevelDB replays the journal and rewrites files, and S0/S1 must stay pristine).
func c08RawOfCopy(dir string) (map[string]string, error) {
	tmp := dir + ".dump"
	defer os.RemoveAll(tmp)
	if err := c08copyDir(dir, tmp); err != nil {
		return nil, err
	}
	return simnet.RawDump(tmp)
}

func c08copyDirFromPristine(src, dst, journalName string, journalData []byte) error {
	if err := c08copyDir(src, dst); err != nil {
		return err
	}
	return os.WriteFile(filepath.Join(dst, journalName), journalData, 0o644)
}

// ---------------------------------------------------------------------------
// real kills

// c08Victim (grand-child): open the node on dir and apply momentums from the source node's chain,
// rolling some back, forever (until killed). Prints progress to stdout.
func c08Victim(dir, source string) {
	simnet.Setup()
	S := simnet.Open("src", source, simnet.MockGenesis(), nil)
	top := S.Height()
	F := simnet.Open("victim", dir, simnet.MockGenesis(), nil)
	fmt.Println("READY")
	r := rand.New(rand.NewSource(int64(os.Getpid())))
	for {
		h := F.Height()
		if h >= top || (h > 4 && r.Intn(3) == 0) {
			// roll back 1..3 momentums
			back := uint64(1 + r.Intn(3))
			if back >= h {
				back = 1
			}
			m, _ := F.Chain.GetFrontierMomentumStore().GetMomentumByHeight(h - back)
			ins := F.Chain.AcquireInsert("victim rollback")
			_ = F.Chain.RollbackTo(ins, m.Identifier())
			ins.Unlock()
			continue
		}
		to := h + uint64(1+r.Intn(4))
		if to > top {
			to = top
		}
		if _, err := F.InsertChain(simnet.CloneBatch(S.Range(h+1, to))); err != nil {
			fmt.Println("ERROR", err)
			os.Exit(7)
		}
	}
}

func c08Kill(c *fw.C, caseID string) {
	r := c.Rand(caseID)
	base := c.ScratchDir("c08k")
	defer os.RemoveAll(base)
	// source chain
	P := simnet.Open("P", base+"/P", simnet.MockGenesis(), g.PillarKeys)
	w := simnet.NewWorkload(rand.New(rand.NewSource(r.Int63())), P)
	for i := 0; i < 40; i++ {
		w.Step(8)
		if _, err := P.Produce(0); err != nil {
			P.Stop()
			c.Inconclusive("producer: " + err.Error())
			return
		}
	}
	// reference raw states: the store after exactly h momentums, for every h (followers are deterministic: C02)
	refs := map[uint64]map[string]string{}
	R := simnet.Open("R", base+"/R", simnet.MockGenesis(), nil)
	top := P.Height()
	for h := uint64(1); h <= top; h++ {
		if h > 1 {
			if _, err := R.InsertChain(simnet.CloneBatch(P.Range(h, h))); err != nil {
				c.Violation("follower-refuses-producers-momentum", err.Error())
				R.Stop()
				P.Stop()
				return
			}
		}
		refs[h] = R.DumpFrontier()
	}
	R.Stop()
	P.Stop() // the victim opens P's directory read-only-ish (its own LevelDB handle)

	victimDir := base + "/V"
	cmd := exec.Command(os.Args[0])
	cmd.Env = append(os.Environ(), "VERIF_C08_VICTIM_DIR="+victimDir, "VERIF_C08_SOURCE_DIR="+P.Dir)
	stdout, _ := cmd.StdoutPipe()
	cmd.Stderr = nil
	if err := cmd.Start(); err != nil {
		c.Inconclusive("cannot start victim: " + err.Error())
		return
	}
	// wait for READY, then let it run for a seeded number of microseconds and kill it
	buf := make([]byte, 4096)
	ready := make(chan bool, 1)
	go func() {
		acc := ""
		for {
			n, err := stdout.Read(buf)
			acc += string(buf[:n])
			if strings.Contains(acc, "READY") {
				ready <- true
				io.Copy(io.Discard, stdout)
				return
			}
			if err != nil {
				ready <- false
				return
			}
		}
	}()
	select {
	case ok := <-ready:
		if !ok {
			_ = cmd.Process.Kill()
			_ = cmd.Wait()
			c.Inconclusive("victim did not get ready")
			return
		}
	case <-time.After(60 * time.Second):
		_ = cmd.Process.Kill()
		_ = cmd.Wait()
		c.Inconclusive("victim start watchdog")
		return
	}
	time.Sleep(time.Duration(500+r.Intn(60000)) * time.Microsecond)
	_ = cmd.Process.Signal(syscall.SIGKILL)
	_ = cmd.Wait()

	// reopen what the victim left behind
	var height uint64
	var dump map[string]string
	ok := c08Reopen(c, victimDir, func(n *simnet.Node) {
		height = n.Height()
		dump = n.DumpFrontier()
	})
	if !ok {
		return
	}
	c.Eval(1)
	c.Distinct(fmt.Sprintf("kill/height=%d", height))
	c.Count("real_kills", 1)
	c.Count("traces_validated_against_impl", 1)
	ref, have := refs[height]
	if !have {
		c.Violation("killed-store-has-unknown-height", map[string]interface{}{"height": height})
		return
	}
	if diffs := simnet.DiffDumps(ref, dump, 4); len(diffs) > 0 {
		c.Violation("killed-store-is-between-two-states", map[string]interface{}{"height": height, "diffs": diffs})
		return
	}
	// raw consistency: redo/undo entries exist exactly for heights 1..height
	raw, err := simnet.RawDump(victimDir)
	if err == nil {
		for k := range raw {
			if (strings.HasPrefix(k, "66") || strings.HasPrefix(k, "77")) && len(k) == 18 {
				var hh uint64
				fmt.Sscanf(k[2:], "%016x", &hh)
				if hh > height {
					c.Violation("killed-store-has-undo-redo-above-frontier", map[string]interface{}{"key": k, "height": height})
					return
				}
			}
		}
	}
	// continue: sync the rest from P and compare with the reference at the top
	P2 := simnet.Open("P", P.Dir, simnet.MockGenesis(), nil)
	defer P2.Stop()
	var contErr error
	var final map[string]string
	c08Reopen(c, victimDir, func(n *simnet.Node) {
		contErr = n.SyncFrom(P2, 7)
		final = n.DumpFrontier()
	})
	if contErr != nil {
		c.Violation("continuation-after-kill-refused", contErr.Error())
		return
	}
	if diffs := simnet.DiffDumps(refs[top], final, 4); len(diffs) > 0 {
		c.Violation("continuation-after-kill-differs", map[string]interface{}{"diffs": diffs})
	}
}

// ---------------------------------------------------------------------------
// the commit at which a spork becomes enforced
//
// That commit is special: after the store write the node looks at the active sporks and, when it does not implement
// one of them, prints the upgrade notice and terminates itself (os.Exit(2)) — so the node has to live in a process of
// its own. The grand-child syncs up to the momentum before the enforcement height, copies its directory (S0), commits
// the enforcing momentum and (if it is still alive) stops; what it leaves is S1. Every journal record boundary between
// the two is a crash point as for any other commit; the images are reopened by "the upgraded binary" (this process,
// with the spork id registered as implemented), which is how an operator continues after that halt.

func c08SporkVictim(dir, file, implemented string) {
	simnet.Setup()
	if implemented != "" {
		types.ImplementedSporksMap[types.HexToHashPanic(implemented)] = true
	}
	batches, err := c17ReadMomentums(file)
	if err != nil || len(batches) < 2 {
		fmt.Println("C08:ERR chain file", err)
		os.Exit(3)
	}
	F := simnet.Open("spork-victim", dir, simnet.MockGenesis(), nil)
	if _, err := F.InsertChain(batches[:len(batches)-1]); err != nil {
		fmt.Println("C08:ERR sync", err)
		os.Exit(3)
	}
	if err := c08copyDir(dir, dir+".S0"); err != nil {
		fmt.Println("C08:ERR copy", err)
		os.Exit(3)
	}
	fmt.Println("C08:S0", F.Height())
	_ = os.Stdout.Sync()
	if _, err := F.InsertChain(batches[len(batches)-1:]); err != nil {
		fmt.Println("C08:ERR commit", err)
		os.Exit(3)
	}
	// alive: this node implements the spork. Leave without closing LevelDB (the journal is what the crash model reads)
	fmt.Println("C08:ALIVE", F.Height())
	os.Exit(0)
}

func c08SporkCommit(c *fw.C, caseID string) {
	r := c.Rand(caseID)
	var idx int
	fmt.Sscanf(caseID, "images:spork:%d", &idx)
	implements := idx%2 == 1
	base := c.ScratchDir("c08spork")
	defer os.RemoveAll(base)
	P := simnet.Open("P", base+"/P", simnet.MockGenesis(), g.PillarKeys)
	defer P.Stop()
	w := simnet.NewWorkload(rand.New(rand.NewSource(r.Int63())), P)
	step := func(blocks int) bool {
		for i := 0; i < blocks; i++ {
			w.One()
		}
		if _, err := P.Produce(0); err != nil {
			c.Inconclusive("producer: " + err.Error())
			return false
		}
		return true
	}
	call := func(data []byte) (types.Hash, bool) {
		blk, err := P.Submit(&nom.AccountBlock{BlockType: nom.BlockTypeUserSend, Address: g.Spork.Address, ToAddress: types.SporkContract, Data: data}, g.Spork)
		if err != nil {
			c.Inconclusive("spork call refused: " + err.Error())
			return types.Hash{}, false
		}
		return blk.Hash, true
	}
	for i := 0; i < 2+r.Intn(6); i++ {
		if !step(r.Intn(4)) {
			return
		}
	}
	id, ok := call(definition.ABISpork.PackMethodPanic(definition.SporkCreateMethodName, "c08-spork", "enforced during a monitored commit"))
	if !ok {
		return
	}
	// the producer implements it (process-wide table; removed again when the case ends)
	types.ImplementedSporksMap[id] = true
	defer delete(types.ImplementedSporksMap, id)
	for i := 0; i < 1+r.Intn(3); i++ {
		if !step(r.Intn(3)) {
			return
		}
	}
	if _, ok := call(definition.ABISpork.PackMethodPanic(definition.SporkActivateMethodName, id)); !ok {
		return
	}
	E := uint64(0)
	for guard := 0; guard < 80; guard++ {
		burst := r.Intn(3)
		if E != 0 && P.Height()+1 == E {
			burst = []int{0, 2, 14, 60}[r.Intn(4)] // the enforcing momentum itself carries a seeded number of blocks
		}
		if !step(burst) {
			return
		}
		if E == 0 {
			if sporks, err := c17ReadSporks(P); err == nil {
				if sp := sporks[id]; sp != nil && sp.Activated {
					E = sp.E
				}
			}
		}
		if E != 0 && P.Height() >= E {
			break
		}
	}
	if E == 0 || P.Height() != E {
		c.Inconclusive(fmt.Sprintf("producer did not stop exactly at the enforcement height (E=%d, height=%d)", E, P.Height()))
		return
	}
	file := base + "/chain.bin"
	if err := c17WriteMomentums(file, P.Range(2, E)); err != nil {
		c.Inconclusive(err.Error())
		return
	}
	dir := base + "/F"
	cmd := exec.Command(os.Args[0])
	impl := ""
	if implements {
		impl = id.String()
	}
	cmd.Env = append(os.Environ(), "VERIF_C08_SPORK_DIR="+dir, "VERIF_C08_SPORK_FILE="+file, "VERIF_C08_SPORK_IMPLEMENTED="+impl)
	var out bytes.Buffer
	cmd.Stdout, cmd.Stderr = &out, &out
	if err := cmd.Start(); err != nil {
		c.Inconclusive(err.Error())
		return
	}
	done := make(chan error, 1)
	go func() { done <- cmd.Wait() }()
	var werr error
	select {
	case werr = <-done:
	case <-time.After(5 * time.Minute): // watchdog only
		_ = cmd.Process.Kill()
		<-done
		c.Inconclusive("grand-child watchdog fired")
		return
	}
	code := 0
	if ee, ok := werr.(*exec.ExitError); ok {
		code = ee.ExitCode()
	} else if werr != nil {
		c.Inconclusive(werr.Error())
		return
	}
	text := out.String()
	tail := text
	if len(tail) > 600 {
		tail = tail[len(tail)-600:]
	}
	if !strings.Contains(text, "C08:S0") || strings.Contains(text, "C08:ERR") {
		c.Inconclusive(fmt.Sprintf("grand-child did not reach the monitored commit: exit=%d %q", code, tail))
		return
	}
	alive := strings.Contains(text, "C08:ALIVE")
	kind := "commit-enforcing-implemented-spork"
	if !implements {
		kind = "commit-enforcing-unimplemented-spork"
		// whether the node halts, and how, is C17's business; here only the store matters
		c.SetAdd("node_without_the_spork_after_the_commit", fmt.Sprintf("alive=%v exit=%d", alive, code))
	} else if !alive {
		c.Inconclusive(fmt.Sprintf("the node that implements the spork did not survive the commit: exit=%d %q", code, tail))
		return
	}
	last := simnet.CloneBatch(P.Range(E, E))
	c08CheckOp(c, base, 100+idx, kind, len(last[0].AccountBlocks), dir+".S0", dir, last, last, P, E)
	c.Count("spork_enforcing_commits_monitored", 1)
}
