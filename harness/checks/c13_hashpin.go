package checks

// C13 — a block's hash pins down its stored bytes and its effect.
//
// Four monitors share this file:
//
//  rt:*    every account block / momentum (from seeded workloads on a real node and from a
//          corner-case generator) goes through protobuf, RLP (the wire form of /repo/protocol),
//          nom JSON and the rpc/api JSON wrappers: decode(encode(x)) must equal x field by field,
//          keep ComputeHash(), re-encode to identical bytes, and ComputeHash() must equal a
//          pre-image written out naively in this file.
//  var:*   variant delivery on two real nodes: a third party alters only fields that are outside
//          the hash pre-image (or that the receiver can re-derive) of a pooled block of node A and
//          hands the variant to node B first. B must reject it, or end up with A's bytes.
//  abi:*   for every method of every embedded-contract ABI: non-canonical re-encodings of a valid
//          call (dirty padding, gaps / reordered / aliased dynamic offsets, trailing bytes),
//          re-hashed and re-signed by the sender, must not be accepted with non-canonical data.
//  (rt:work also checks that the call data of every stored contract call is canonical.)
//
// Canonicality is judged by a strict ABI walker written here (c13CanonTuple), the repository's
// pack(unpack(data)) is evaluated as well and must agree.

import (
	"bytes"
	"crypto/ed25519"
	"encoding/base64"
	"encoding/binary"
	"encoding/hex"
	"encoding/json"
	"fmt"
	"math/big"
	"math/rand"
	"os"
	"path/filepath"
	"regexp"
	"sort"
	"strconv"
	"strings"

	"github.com/ethereum/go-ethereum/rlp"
	"golang.org/x/crypto/sha3"

	g "github.com/zenon-network/go-zenon/chain/genesis/mock"
	"github.com/zenon-network/go-zenon/chain/nom"
	"github.com/zenon-network/go-zenon/common/types"
	"github.com/zenon-network/go-zenon/rpc/api"
	"github.com/zenon-network/go-zenon/vm/abi"
	"github.com/zenon-network/go-zenon/vm/constants"
	"github.com/zenon-network/go-zenon/vm/embedded/definition"
	"github.com/zenon-network/go-zenon/vm/embedded/implementation"
	"github.com/zenon-network/go-zenon/wallet"

	"verif/harness/fw"
	"verif/harness/simnet"
)

func init() {
	fw.Register(&fw.Check{
		ID:    "C13",
		Level: "exploration",
		Rule: "rt:gen cases are PRNG-generated account blocks / momentums over corner-case pools (nil/zero/2^64/2^255-1/2^256+ amounts, nil vs empty byte fields, max uint64, nested descendants, odd key lengths); " +
			"rt:work cases are seeded workloads on a real producer node (transfers, receives, calls of every embedded contract incl. non-canonical call data, momentums) whose whole ledger is round-tripped and synced to a second node over RLP; " +
			"var cases enumerate (role of the receiving node, block type, altered field, sub-variant) on two real nodes; abi cases enumerate (contract, method) x kinds of non-canonical re-encoding; " +
			"distinct_nontrivial counts distinct (codec, object type, shape class), (role, block type, field, outcome) and (contract.method, kind, outcome) keys actually observed",
		Cases:       c13Cases,
		Run:         c13Run,
		MinDistinct: 60,
		Assumptions: []string{
			"nil and empty byte slices / lists, and a nil and a zero amount, are the same value (every decoder of the node produces one of them)",
			"Momentum.Timestamp is a cache of TimestampUnix and is not compared",
			"the harness is a third party in var cases: it never signs with the owner's key; in abi cases it is the sender and re-signs",
			"nom.AccountBlock, nom.Momentum and nom.DetailedMomentum have no EncodeRLP/DecodeRLP of their own: the wire form is go-ethereum's reflection encoding of the exported fields",
			"go-ethereum rlp, protobuf, encoding/json, ed25519 and sha3 are trusted libraries; /repo/vm/abi is used as a codec to build calls and is cross-checked by the strict walker in this file",
			"generated amounts are non-negative (negative amounts are refused by the verifier and cannot be encoded by RLP)",
		},
	})
}

func c13Cases(tier string, seed int64) []string {
	var l []string
	thorough := tier == "thorough"
	nGen, nWork, nVar, nAbi := 240, 60, 8, 8
	if thorough {
		nGen, nWork, nVar, nAbi = 3000, 800, 100, 100
	}
	for i := 0; i < nGen; i++ {
		l = append(l, fmt.Sprintf("rt:gen:%d", i))
	}
	for i := 0; i < nWork; i++ {
		l = append(l, fmt.Sprintf("rt:work:origin:%d", i), fmt.Sprintf("rt:work:sporks:%d", i))
	}
	for _, v := range c13VariantList() {
		for i := 0; i < nVar; i++ {
			l = append(l, fmt.Sprintf("var:%s:%s:%s:%s:%d", v.role, v.blockType, v.field, v.sub, i))
		}
	}
	for _, ct := range c13Contracts() {
		for _, m := range c13MethodNames(ct.abi) {
			for i := 0; i < nAbi; i++ {
				l = append(l, fmt.Sprintf("abi:%s:%s:%d", ct.name, m, i))
			}
		}
	}
	// interleave cheap and expensive cases so that shards (i % n) are balanced
	r := rand.New(rand.NewSource(fw.SeedFor(seed, "c13-case-order")))
	r.Shuffle(len(l), func(i, j int) { l[i], l[j] = l[j], l[i] })
	return l
}

func c13Run(c *fw.C, caseID string) {
	parts := strings.Split(caseID, ":")
	defer func() {
		if e := recover(); e != nil {
			// a panic inside the harness itself (not inside a guarded call into the node) is a
			// harness problem or an unexpected state: never count it as held.
			c.Inconclusive(fmt.Sprintf("harness panic: %v", e))
		}
	}()
	switch parts[0] {
	case "rt":
		if parts[1] == "gen" {
			c13RunGen(c, caseID)
		} else {
			c13RunWork(c, caseID, parts[2])
		}
	case "var":
		c13RunVariant(c, caseID, c13Variant{role: parts[1], blockType: parts[2], field: parts[3], sub: parts[4]})
	case "abi":
		c13RunAbi(c, caseID, parts[1], parts[2])
	}
}

// c13Violate reports a violation but keeps at most a few witnesses per signature and process: the
// framework stores a bounded number of violations per child, and the classes that are expected on
// the unchanged tree (see DESIGN §5 F7) must not crowd out a new one.
var c13SigSeen = map[string]int{}

func c13Violate(c *fw.C, sig string, detail interface{}) {
	c13SigSeen[sig]++
	if c13SigSeen[sig] > 3 {
		c.Count("violations_not_stored_(same_signature_seen_before_in_this_process)", 1)
		return
	}
	c.Violation(sig, detail)
}

// ---------------------------------------------------------------------------
// naive pre-images (independent of nom.ComputeHash)

func c13Sum(parts ...[]byte) []byte {
	h := sha3.New256()
	for _, p := range parts {
		h.Write(p)
	}
	return h.Sum(nil)
}

func c13BE64(x uint64) []byte {
	b := make([]byte, 8)
	binary.BigEndian.PutUint64(b, x)
	return b
}

// amount: big-endian magnitude, left-padded with zeros to 32 bytes (longer magnitudes unchanged)
func c13Amount32(a *big.Int) []byte {
	var raw []byte
	if a != nil {
		raw = a.Bytes()
	}
	if len(raw) >= 32 {
		return raw
	}
	out := make([]byte, 32)
	copy(out[32-len(raw):], raw)
	return out
}

func c13NaiveBlockHash(b *nom.AccountBlock) types.Hash {
	var desc []byte
	for _, d := range b.DescendantBlocks {
		desc = append(desc, d.Hash[:]...)
	}
	var h types.Hash
	copy(h[:], c13Sum(
		c13BE64(b.Version), c13BE64(b.ChainIdentifier), c13BE64(b.BlockType),
		b.PreviousHash[:], c13BE64(b.Height),
		b.MomentumAcknowledged.Hash[:], c13BE64(b.MomentumAcknowledged.Height),
		b.Address[:], b.ToAddress[:], c13Amount32(b.Amount), b.TokenStandard[:],
		b.FromBlockHash[:], c13Sum(desc), c13Sum(b.Data),
		c13BE64(b.FusedPlasma), c13BE64(b.Difficulty), b.Nonce.Data[:],
	))
	return h
}

func c13NaiveMomentumHash(m *nom.Momentum) types.Hash {
	var content []byte
	for _, hd := range m.Content {
		content = append(content, hd.Address[:]...)
		content = append(content, c13BE64(hd.Height)...)
		content = append(content, hd.Hash[:]...)
	}
	var h types.Hash
	copy(h[:], c13Sum(
		c13BE64(m.Version), c13BE64(m.ChainIdentifier), m.PreviousHash[:], c13BE64(m.Height),
		c13BE64(m.TimestampUnix), c13Sum(m.Data), c13Sum(content), m.ChangesHash[:],
	))
	return h
}

// ---------------------------------------------------------------------------
// field-by-field comparison (nil == empty for byte slices and lists, nil == 0 for amounts)

func c13BigEq(a, b *big.Int) bool {
	if a == nil {
		a = new(big.Int)
	}
	if b == nil {
		b = new(big.Int)
	}
	return a.Cmp(b) == 0
}

func c13DiffBlock(a, b *nom.AccountBlock, prefix string, out *[]string) {
	add := func(f string) { *out = append(*out, prefix+f) }
	if a == nil || b == nil {
		if a != b {
			add("(nil)")
		}
		return
	}
	if a.Version != b.Version {
		add("Version")
	}
	if a.ChainIdentifier != b.ChainIdentifier {
		add("ChainIdentifier")
	}
	if a.BlockType != b.BlockType {
		add("BlockType")
	}
	if a.Hash != b.Hash {
		add("Hash")
	}
	if a.PreviousHash != b.PreviousHash {
		add("PreviousHash")
	}
	if a.Height != b.Height {
		add("Height")
	}
	if a.MomentumAcknowledged != b.MomentumAcknowledged {
		add("MomentumAcknowledged")
	}
	if a.Address != b.Address {
		add("Address")
	}
	if a.ToAddress != b.ToAddress {
		add("ToAddress")
	}
	if !c13BigEq(a.Amount, b.Amount) {
		add("Amount")
	}
	if a.TokenStandard != b.TokenStandard {
		add("TokenStandard")
	}
	if a.FromBlockHash != b.FromBlockHash {
		add("FromBlockHash")
	}
	if !bytes.Equal(a.Data, b.Data) {
		add("Data")
	}
	if a.FusedPlasma != b.FusedPlasma {
		add("FusedPlasma")
	}
	if a.Difficulty != b.Difficulty {
		add("Difficulty")
	}
	if a.Nonce.Data != b.Nonce.Data {
		add("Nonce")
	}
	if a.BasePlasma != b.BasePlasma {
		add("BasePlasma")
	}
	if a.TotalPlasma != b.TotalPlasma {
		add("TotalPlasma")
	}
	if a.ChangesHash != b.ChangesHash {
		add("ChangesHash")
	}
	if !bytes.Equal(a.PublicKey, b.PublicKey) {
		add("PublicKey")
	}
	if !bytes.Equal(a.Signature, b.Signature) {
		add("Signature")
	}
	if len(a.DescendantBlocks) != len(b.DescendantBlocks) {
		add("DescendantBlocks(len)")
		return
	}
	for i := range a.DescendantBlocks {
		p := prefix
		if !strings.HasSuffix(p, "DescendantBlocks.") {
			p += "DescendantBlocks."
		}
		c13DiffBlock(a.DescendantBlocks[i], b.DescendantBlocks[i], p, out)
	}
}

func c13DiffMomentum(a, b *nom.Momentum, prefix string, out *[]string) {
	add := func(f string) { *out = append(*out, prefix+f) }
	if a == nil || b == nil {
		if a != b {
			add("(nil)")
		}
		return
	}
	if a.Version != b.Version {
		add("Version")
	}
	if a.ChainIdentifier != b.ChainIdentifier {
		add("ChainIdentifier")
	}
	if a.Hash != b.Hash {
		add("Hash")
	}
	if a.PreviousHash != b.PreviousHash {
		add("PreviousHash")
	}
	if a.Height != b.Height {
		add("Height")
	}
	if a.TimestampUnix != b.TimestampUnix {
		add("TimestampUnix")
	}
	if !bytes.Equal(a.Data, b.Data) {
		add("Data")
	}
	if a.ChangesHash != b.ChangesHash {
		add("ChangesHash")
	}
	if !bytes.Equal(a.PublicKey, b.PublicKey) {
		add("PublicKey")
	}
	if !bytes.Equal(a.Signature, b.Signature) {
		add("Signature")
	}
	if len(a.Content) != len(b.Content) {
		add("Content(len)")
		return
	}
	for i := range a.Content {
		if a.Content[i] == nil || b.Content[i] == nil {
			if a.Content[i] != b.Content[i] {
				add("Content(nil)")
			}
			continue
		}
		if *a.Content[i] != *b.Content[i] {
			add("Content")
		}
	}
}

func c13DiffDetailed(a, b *nom.DetailedMomentum, out *[]string) {
	if a == nil || b == nil {
		if a != b {
			*out = append(*out, "(nil)")
		}
		return
	}
	c13DiffMomentum(a.Momentum, b.Momentum, "Momentum.", out)
	if len(a.AccountBlocks) != len(b.AccountBlocks) {
		*out = append(*out, "AccountBlocks(len)")
		return
	}
	for i := range a.AccountBlocks {
		c13DiffBlock(a.AccountBlocks[i], b.AccountBlocks[i], "AccountBlocks.", out)
	}
}

func c13Uniq(l []string) []string {
	m := map[string]bool{}
	var o []string
	for _, s := range l {
		if !m[s] {
			m[s] = true
			o = append(o, s)
		}
	}
	sort.Strings(o)
	return o
}

// ---------------------------------------------------------------------------
// codecs

// c13Guard runs f and converts a panic into an error.
func c13Guard(f func() error) (err error) {
	defer func() {
		if e := recover(); e != nil {
			err = fmt.Errorf("panic: %v", e)
		}
	}()
	return f()
}

type c13BlockCodec struct {
	name string
	enc  func(b *nom.AccountBlock) ([]byte, error)
	dec  func(data []byte) (*nom.AccountBlock, error)
}

type c13ApiExtras struct {
	token  *api.Token
	conf   *api.AccountBlockConfirmationDetail
	paired *nom.AccountBlock
}

func c13BlockCodecs(ex *c13ApiExtras) []c13BlockCodec {
	return []c13BlockCodec{
		{"proto",
			func(b *nom.AccountBlock) ([]byte, error) { return b.Serialize() },
			func(d []byte) (*nom.AccountBlock, error) { return nom.DeserializeAccountBlock(d) }},
		{"rlp",
			func(b *nom.AccountBlock) ([]byte, error) { return rlp.EncodeToBytes(b) },
			func(d []byte) (*nom.AccountBlock, error) {
				o := new(nom.AccountBlock)
				return o, rlp.DecodeBytes(d, o)
			}},
		{"rlp-txmsg",
			func(b *nom.AccountBlock) ([]byte, error) { return rlp.EncodeToBytes([]*nom.AccountBlock{b}) },
			func(d []byte) (*nom.AccountBlock, error) {
				var o []*nom.AccountBlock
				if err := rlp.DecodeBytes(d, &o); err != nil {
					return nil, err
				}
				if len(o) != 1 {
					return nil, fmt.Errorf("decoded %d blocks from a list of one", len(o))
				}
				return o[0], nil
			}},
		{"json",
			func(b *nom.AccountBlock) ([]byte, error) { return json.Marshal(b) },
			func(d []byte) (*nom.AccountBlock, error) {
				o := new(nom.AccountBlock)
				return o, json.Unmarshal(d, o)
			}},
		{"api-json",
			func(b *nom.AccountBlock) ([]byte, error) {
				w := &api.AccountBlock{AccountBlock: *b.Copy()}
				if ex != nil {
					w.TokenInfo = ex.token
					w.ConfirmationDetail = ex.conf
					if ex.paired != nil {
						w.PairedAccountBlock = &api.AccountBlock{AccountBlock: *ex.paired.Copy(), TokenInfo: ex.token}
					}
				}
				return json.Marshal(w)
			},
			func(d []byte) (*nom.AccountBlock, error) {
				o := new(api.AccountBlock)
				if err := json.Unmarshal(d, o); err != nil {
					return nil, err
				}
				// the wrapper's own hash entry point must agree with the embedded block
				if h, err := o.ComputeHash(); err != nil || *h != o.AccountBlock.ComputeHash() {
					return nil, fmt.Errorf("api.AccountBlock.ComputeHash disagrees with the embedded block")
				}
				return &o.AccountBlock, nil
			}},
	}
}

type c13MomentumCodec struct {
	name string
	enc  func(m *nom.Momentum) ([]byte, error)
	dec  func(data []byte) (*nom.Momentum, error)
}

func c13MomentumCodecs() []c13MomentumCodec {
	return []c13MomentumCodec{
		{"proto",
			func(m *nom.Momentum) ([]byte, error) { return m.Serialize() },
			func(d []byte) (*nom.Momentum, error) { return nom.DeserializeMomentum(d) }},
		{"rlp",
			func(m *nom.Momentum) ([]byte, error) { return rlp.EncodeToBytes(m) },
			func(d []byte) (*nom.Momentum, error) {
				o := new(nom.Momentum)
				return o, rlp.DecodeBytes(d, o)
			}},
		{"json",
			func(m *nom.Momentum) ([]byte, error) { return json.Marshal(m) },
			func(d []byte) (*nom.Momentum, error) {
				o := new(nom.Momentum)
				return o, json.Unmarshal(d, o)
			}},
		{"api-json",
			func(m *nom.Momentum) ([]byte, error) {
				return json.Marshal(&api.Momentum{Momentum: m, Producer: types.PubKeyToAddress(m.PublicKey)})
			},
			func(d []byte) (*nom.Momentum, error) {
				o := new(api.Momentum)
				if err := json.Unmarshal(d, o); err != nil {
					return nil, err
				}
				if o.Momentum == nil {
					return nil, fmt.Errorf("embedded momentum missing after decode")
				}
				return o.Momentum, nil
			}},
	}
}

type c13DetailedCodec struct {
	name string
	enc  func(d *nom.DetailedMomentum) ([]byte, error)
	dec  func(data []byte) (*nom.DetailedMomentum, error)
}

func c13DetailedCodecs() []c13DetailedCodec {
	return []c13DetailedCodec{
		{"rlp-newblockmsg",
			func(d *nom.DetailedMomentum) ([]byte, error) { return rlp.EncodeToBytes(d) },
			func(data []byte) (*nom.DetailedMomentum, error) {
				var o *nom.DetailedMomentum
				err := rlp.DecodeBytes(data, &o)
				return o, err
			}},
		{"rlp-blocksmsg",
			func(d *nom.DetailedMomentum) ([]byte, error) { return rlp.EncodeToBytes([]*nom.DetailedMomentum{d}) },
			func(data []byte) (*nom.DetailedMomentum, error) {
				var o []*nom.DetailedMomentum
				if err := rlp.DecodeBytes(data, &o); err != nil {
					return nil, err
				}
				if len(o) != 1 {
					return nil, fmt.Errorf("decoded %d momentums from a list of one", len(o))
				}
				return o[0], nil
			}},
		{"json",
			func(d *nom.DetailedMomentum) ([]byte, error) { return json.Marshal(d) },
			func(data []byte) (*nom.DetailedMomentum, error) {
				o := new(nom.DetailedMomentum)
				return o, json.Unmarshal(data, o)
			}},
		{"api-json",
			func(d *nom.DetailedMomentum) ([]byte, error) {
				w := &api.DetailedMomentum{Momentum: &api.Momentum{Momentum: d.Momentum, Producer: types.PubKeyToAddress(d.Momentum.PublicKey)}}
				w.AccountBlocks = make([]*api.AccountBlock, 0, len(d.AccountBlocks))
				for _, b := range d.AccountBlocks {
					w.AccountBlocks = append(w.AccountBlocks, &api.AccountBlock{AccountBlock: *b.Copy()})
				}
				return json.Marshal(w)
			},
			func(data []byte) (*nom.DetailedMomentum, error) {
				o := new(api.DetailedMomentum)
				if err := json.Unmarshal(data, o); err != nil {
					return nil, err
				}
				if o.Momentum == nil || o.Momentum.Momentum == nil {
					return nil, fmt.Errorf("momentum missing after decode")
				}
				out := &nom.DetailedMomentum{Momentum: o.Momentum.Momentum}
				for _, b := range o.AccountBlocks {
					out.AccountBlocks = append(out.AccountBlocks, &b.AccountBlock)
				}
				return out, nil
			}},
	}
}

// c13RT is the generic round-trip oracle. enc/dec are guarded. Returns the decoded value (or nil).
type c13RTReport struct {
	c      *fw.C
	source string // gen | work
}

func (rp *c13RTReport) violation(codec, typ, problem string, witness map[string]interface{}) {
	witness["source"] = rp.source
	c13Violate(rp.c, fmt.Sprintf("roundtrip codec=%s type=%s problem=%s", codec, typ, problem), witness)
}

func c13HexTrunc(b []byte) string {
	s := hex.EncodeToString(b)
	if len(s) > 4000 {
		return s[:4000] + "…"
	}
	return s
}

func c13BlockWitness(b *nom.AccountBlock) string {
	data, err := b.Serialize()
	if err != nil {
		return "unserializable: " + err.Error()
	}
	return c13HexTrunc(data)
}

func c13BlockShape(b *nom.AccountBlock) string {
	amt := "0"
	switch {
	case b.Amount == nil:
		amt = "nil"
	case b.Amount.Sign() == 0:
		amt = "0"
	case b.Amount.BitLen() <= 64:
		amt = "u64"
	case b.Amount.BitLen() <= 255:
		amt = "u255"
	case b.Amount.BitLen() <= 256:
		amt = "u256"
	default:
		amt = "huge"
	}
	data := "data"
	if b.Data == nil {
		data = "nil"
	} else if len(b.Data) == 0 {
		data = "empty"
	}
	return fmt.Sprintf("bt%d/amt-%s/data-%s/desc%d", b.BlockType, amt, data, len(b.DescendantBlocks))
}

func (rp *c13RTReport) block(b *nom.AccountBlock, ex *c13ApiExtras) {
	c := rp.c
	want := b.ComputeHash()
	if naive := c13NaiveBlockHash(b); naive != want {
		c13Violate(c, "hash-preimage type=AccountBlock", map[string]interface{}{
			"what": "ComputeHash() differs from the documented pre-image computed independently", "source": rp.source,
			"block_proto": c13BlockWitness(b), "compute_hash": want.String(), "naive": naive.String()})
	}
	c.Eval(1)
	var decoded []*nom.AccountBlock
	var names []string
	for _, cd := range c13BlockCodecs(ex) {
		cd := cd
		var enc1 []byte
		if err := c13Guard(func() (e error) { enc1, e = cd.enc(b); return }); err != nil {
			rp.violation(cd.name, "AccountBlock", "encode-error", map[string]interface{}{"error": err.Error(), "block_proto": c13BlockWitness(b)})
			continue
		}
		var b2 *nom.AccountBlock
		if err := c13Guard(func() (e error) { b2, e = cd.dec(enc1); return }); err != nil || b2 == nil {
			rp.violation(cd.name, "AccountBlock", "decode-error", map[string]interface{}{"error": fmt.Sprint(err), "encoded": c13HexTrunc(enc1), "block_proto": c13BlockWitness(b)})
			continue
		}
		c.Eval(1)
		c.Distinct("rt/" + cd.name + "/AccountBlock/" + c13BlockShape(b))
		var diffs []string
		c13DiffBlock(b, b2, "", &diffs)
		for _, f := range c13Uniq(diffs) {
			rp.violation(cd.name, "AccountBlock", "field-changed:"+f, map[string]interface{}{"encoded": c13HexTrunc(enc1), "block_proto": c13BlockWitness(b), "decoded_proto": c13BlockWitness(b2)})
		}
		if h2 := b2.ComputeHash(); h2 != want {
			rp.violation(cd.name, "AccountBlock", "hash-changed", map[string]interface{}{"encoded": c13HexTrunc(enc1), "block_proto": c13BlockWitness(b), "before": want.String(), "after": h2.String()})
		}
		var enc2 []byte
		if err := c13Guard(func() (e error) { enc2, e = cd.enc(b2); return }); err != nil {
			rp.violation(cd.name, "AccountBlock", "reencode-error", map[string]interface{}{"error": err.Error(), "encoded": c13HexTrunc(enc1)})
		} else if c13HasNilAmount(b) {
			// a nil amount is an in-memory form no decoder yields; its text form may differ from
			// that of zero, so the bytes are compared one pass later
			var b3 *nom.AccountBlock
			var enc3 []byte
			if err := c13Guard(func() (e error) {
				if b3, e = cd.dec(enc2); e != nil {
					return
				}
				enc3, e = cd.enc(b3)
				return
			}); err != nil || !bytes.Equal(enc2, enc3) {
				rp.violation(cd.name, "AccountBlock", "bytes-changed", map[string]interface{}{"error": fmt.Sprint(err), "first": c13HexTrunc(enc2), "second": c13HexTrunc(enc3), "block_proto": c13BlockWitness(b)})
			}
		} else if !bytes.Equal(enc1, enc2) {
			rp.violation(cd.name, "AccountBlock", "bytes-changed", map[string]interface{}{"first": c13HexTrunc(enc1), "second": c13HexTrunc(enc2), "block_proto": c13BlockWitness(b)})
		}
		decoded = append(decoded, b2)
		names = append(names, cd.name)
	}
	// all decoders agree with each other
	for i := 1; i < len(decoded); i++ {
		var diffs []string
		c13DiffBlock(decoded[0], decoded[i], "", &diffs)
		for _, f := range c13Uniq(diffs) {
			rp.violation(names[0]+"-vs-"+names[i], "AccountBlock", "field-changed:"+f, map[string]interface{}{"block_proto": c13BlockWitness(b)})
		}
	}
}

func c13HasNilAmount(b *nom.AccountBlock) bool {
	if b == nil {
		return false
	}
	if b.Amount == nil {
		return true
	}
	for _, d := range b.DescendantBlocks {
		if c13HasNilAmount(d) {
			return true
		}
	}
	return false
}

func c13MomentumWitness(m *nom.Momentum) string {
	data, err := m.Serialize()
	if err != nil {
		return "unserializable: " + err.Error()
	}
	return c13HexTrunc(data)
}

func (rp *c13RTReport) momentum(m *nom.Momentum) {
	c := rp.c
	want := m.ComputeHash()
	if naive := c13NaiveMomentumHash(m); naive != want {
		c13Violate(c, "hash-preimage type=Momentum", map[string]interface{}{
			"what": "ComputeHash() differs from the documented pre-image computed independently", "source": rp.source,
			"momentum_proto": c13MomentumWitness(m), "compute_hash": want.String(), "naive": naive.String()})
	}
	c.Eval(1)
	for _, cd := range c13MomentumCodecs() {
		cd := cd
		var enc1 []byte
		if err := c13Guard(func() (e error) { enc1, e = cd.enc(m); return }); err != nil {
			rp.violation(cd.name, "Momentum", "encode-error", map[string]interface{}{"error": err.Error(), "momentum_proto": c13MomentumWitness(m)})
			continue
		}
		var m2 *nom.Momentum
		if err := c13Guard(func() (e error) { m2, e = cd.dec(enc1); return }); err != nil || m2 == nil {
			rp.violation(cd.name, "Momentum", "decode-error", map[string]interface{}{"error": fmt.Sprint(err), "encoded": c13HexTrunc(enc1)})
			continue
		}
		c.Eval(1)
		shape := fmt.Sprintf("content%d", len(m.Content))
		if len(m.Content) > 3 {
			shape = "content-many"
		}
		c.Distinct("rt/" + cd.name + "/Momentum/" + shape)
		var diffs []string
		c13DiffMomentum(m, m2, "", &diffs)
		for _, f := range c13Uniq(diffs) {
			rp.violation(cd.name, "Momentum", "field-changed:"+f, map[string]interface{}{"encoded": c13HexTrunc(enc1), "momentum_proto": c13MomentumWitness(m)})
		}
		if h2 := m2.ComputeHash(); h2 != want {
			rp.violation(cd.name, "Momentum", "hash-changed", map[string]interface{}{"encoded": c13HexTrunc(enc1), "before": want.String(), "after": h2.String()})
		}
		if m2.Timestamp != nil && uint64(m2.Timestamp.Unix()) != m2.TimestampUnix {
			rp.violation(cd.name, "Momentum", "timestamp-cache-inconsistent", map[string]interface{}{"encoded": c13HexTrunc(enc1)})
		}
		var enc2 []byte
		if err := c13Guard(func() (e error) { enc2, e = cd.enc(m2); return }); err != nil {
			rp.violation(cd.name, "Momentum", "reencode-error", map[string]interface{}{"error": err.Error(), "encoded": c13HexTrunc(enc1)})
		} else if !bytes.Equal(enc1, enc2) {
			rp.violation(cd.name, "Momentum", "bytes-changed", map[string]interface{}{"first": c13HexTrunc(enc1), "second": c13HexTrunc(enc2)})
		}
	}
}

func (rp *c13RTReport) detailed(d *nom.DetailedMomentum) {
	c := rp.c
	want := d.Momentum.ComputeHash()
	for _, cd := range c13DetailedCodecs() {
		cd := cd
		var enc1 []byte
		if err := c13Guard(func() (e error) { enc1, e = cd.enc(d); return }); err != nil {
			rp.violation(cd.name, "DetailedMomentum", "encode-error", map[string]interface{}{"error": err.Error(), "momentum_proto": c13MomentumWitness(d.Momentum)})
			continue
		}
		var d2 *nom.DetailedMomentum
		if err := c13Guard(func() (e error) { d2, e = cd.dec(enc1); return }); err != nil || d2 == nil {
			rp.violation(cd.name, "DetailedMomentum", "decode-error", map[string]interface{}{"error": fmt.Sprint(err), "encoded": c13HexTrunc(enc1)})
			continue
		}
		c.Eval(1)
		shape := fmt.Sprintf("blocks%d", len(d.AccountBlocks))
		if len(d.AccountBlocks) > 3 {
			shape = "blocks-many"
		}
		c.Distinct("rt/" + cd.name + "/DetailedMomentum/" + shape)
		var diffs []string
		c13DiffDetailed(d, d2, &diffs)
		for _, f := range c13Uniq(diffs) {
			rp.violation(cd.name, "DetailedMomentum", "field-changed:"+f, map[string]interface{}{"encoded": c13HexTrunc(enc1)})
		}
		if h2 := d2.Momentum.ComputeHash(); h2 != want {
			rp.violation(cd.name, "DetailedMomentum", "hash-changed", map[string]interface{}{"encoded": c13HexTrunc(enc1)})
		}
		for i := range d2.AccountBlocks {
			if i < len(d.AccountBlocks) && d2.AccountBlocks[i].ComputeHash() != d.AccountBlocks[i].ComputeHash() {
				rp.violation(cd.name, "DetailedMomentum", "block-hash-changed", map[string]interface{}{"encoded": c13HexTrunc(enc1)})
			}
		}
		var enc2 []byte
		nilAmount := false
		for _, blk := range d.AccountBlocks {
			nilAmount = nilAmount || c13HasNilAmount(blk)
		}
		if err := c13Guard(func() (e error) { enc2, e = cd.enc(d2); return }); err != nil {
			rp.violation(cd.name, "DetailedMomentum", "reencode-error", map[string]interface{}{"error": err.Error(), "encoded": c13HexTrunc(enc1)})
		} else if nilAmount {
			// see AccountBlock: compared through the per-block oracle
		} else if !bytes.Equal(enc1, enc2) {
			rp.violation(cd.name, "DetailedMomentum", "bytes-changed", map[string]interface{}{"first": c13HexTrunc(enc1), "second": c13HexTrunc(enc2)})
		}
	}
}

// ---------------------------------------------------------------------------
// corner-case generator

var c13Two = big.NewInt(2)

func c13Pow2(n uint) *big.Int { return new(big.Int).Lsh(big.NewInt(1), n) }

func c13GenAmount(r *rand.Rand) *big.Int {
	switch r.Intn(12) {
	case 0:
		return nil
	case 1:
		return big.NewInt(0)
	case 2:
		return big.NewInt(1)
	case 3:
		return new(big.Int).SetUint64(^uint64(0))
	case 4:
		return c13Pow2(64)
	case 5:
		return new(big.Int).Sub(c13Pow2(255), big.NewInt(1))
	case 6:
		return new(big.Int).Sub(c13Pow2(256), big.NewInt(1))
	case 7:
		return c13Pow2(256)
	case 8:
		return new(big.Int).Add(c13Pow2(300), big.NewInt(int64(r.Intn(1000))))
	case 9:
		// one non-zero byte at a random position of 32: leading zeros in the fixed-width form
		return c13Pow2(uint(8 * r.Intn(32)))
	default:
		b := make([]byte, 1+r.Intn(32))
		r.Read(b)
		return new(big.Int).SetBytes(b)
	}
}

func c13GenU64(r *rand.Rand) uint64 {
	switch r.Intn(6) {
	case 0:
		return 0
	case 1:
		return 1
	case 2:
		return ^uint64(0)
	case 3:
		return 1 << 63
	case 4:
		return uint64(r.Intn(6))
	default:
		return r.Uint64()
	}
}

func c13GenBytes(r *rand.Rand, lens ...int) []byte {
	switch r.Intn(5) {
	case 0:
		return nil
	case 1:
		return []byte{}
	case 2:
		return []byte{0}
	default:
		n := lens[r.Intn(len(lens))]
		b := make([]byte, n)
		r.Read(b)
		if r.Intn(4) == 0 && n > 0 {
			b[0] = 0 // leading zero byte
		}
		return b
	}
}

func c13GenHash(r *rand.Rand) types.Hash {
	var h types.Hash
	switch r.Intn(5) {
	case 0:
	case 1:
		for i := range h {
			h[i] = 0xff
		}
	default:
		r.Read(h[:])
	}
	return h
}

func c13GenAddress(r *rand.Rand) types.Address {
	var a types.Address
	switch r.Intn(6) {
	case 0:
	case 1:
		a = types.TokenContract
	case 2:
		a = g.AllKeyPairs[r.Intn(len(g.AllKeyPairs))].Address
	case 3:
		for i := range a {
			a[i] = 0xff
		}
	default:
		r.Read(a[:])
	}
	return a
}

func c13GenZts(r *rand.Rand) types.ZenonTokenStandard {
	var z types.ZenonTokenStandard
	switch r.Intn(5) {
	case 0:
	case 1:
		z = types.ZnnTokenStandard
	case 2:
		z = types.QsrTokenStandard
	default:
		r.Read(z[:])
	}
	return z
}

func c13GenBlock(r *rand.Rand, depth int) *nom.AccountBlock {
	b := &nom.AccountBlock{
		Version:              c13GenU64(r),
		ChainIdentifier:      c13GenU64(r),
		BlockType:            uint64(1 + r.Intn(5)),
		Hash:                 c13GenHash(r),
		PreviousHash:         c13GenHash(r),
		Height:               c13GenU64(r),
		MomentumAcknowledged: types.HashHeight{Hash: c13GenHash(r), Height: c13GenU64(r)},
		Address:              c13GenAddress(r),
		ToAddress:            c13GenAddress(r),
		Amount:               c13GenAmount(r),
		TokenStandard:        c13GenZts(r),
		FromBlockHash:        c13GenHash(r),
		Data:                 c13GenBytes(r, 1, 4, 31, 32, 33, 68, 300),
		FusedPlasma:          c13GenU64(r),
		Difficulty:           c13GenU64(r),
		BasePlasma:           c13GenU64(r),
		TotalPlasma:          c13GenU64(r),
		ChangesHash:          c13GenHash(r),
		PublicKey:            c13GenBytes(r, 32, 32, 32, 31, 33, 64),
		Signature:            c13GenBytes(r, 64, 64, 64, 63, 65, 1),
	}
	if r.Intn(8) == 0 {
		b.BlockType = c13GenU64(r)
	}
	if r.Intn(3) != 0 {
		r.Read(b.Nonce.Data[:])
	}
	switch {
	case depth >= 2 || r.Intn(3) != 0:
		if r.Intn(2) == 0 {
			b.DescendantBlocks = []*nom.AccountBlock{}
		}
	default:
		n := 1 + r.Intn(3)
		for i := 0; i < n; i++ {
			b.DescendantBlocks = append(b.DescendantBlocks, c13GenBlock(r, depth+1))
		}
	}
	return b
}

func c13GenMomentum(r *rand.Rand) *nom.Momentum {
	m := &nom.Momentum{
		Version:         c13GenU64(r),
		ChainIdentifier: c13GenU64(r),
		Hash:            c13GenHash(r),
		PreviousHash:    c13GenHash(r),
		Height:          c13GenU64(r),
		TimestampUnix:   c13GenU64(r),
		Data:            c13GenBytes(r, 1, 32, 100),
		ChangesHash:     c13GenHash(r),
		PublicKey:       c13GenBytes(r, 32, 32, 31, 33),
		Signature:       c13GenBytes(r, 64, 64, 63, 65),
	}
	if r.Intn(3) == 0 {
		// timestamps that time.Unix can represent without surprises for the cache check
		m.TimestampUnix = uint64(r.Int63n(1 << 40))
	}
	switch r.Intn(4) {
	case 0:
	case 1:
		m.Content = nom.MomentumContent{}
	default:
		n := 1 + r.Intn(5)
		for i := 0; i < n; i++ {
			m.Content = append(m.Content, &types.AccountHeader{Address: c13GenAddress(r), HashHeight: types.HashHeight{Hash: c13GenHash(r), Height: c13GenU64(r)}})
		}
	}
	return m
}

func c13GenExtras(r *rand.Rand) *c13ApiExtras {
	if r.Intn(2) == 0 {
		return nil
	}
	ex := &c13ApiExtras{}
	if r.Intn(2) == 0 {
		ex.token = &api.Token{TokenName: "Some Token", TokenSymbol: "SOME", TokenDomain: "example.com",
			TotalSupply: c13NonNil(c13GenAmount(r)), MaxSupply: c13NonNil(c13GenAmount(r)), Decimals: uint8(r.Intn(19)),
			Owner: c13GenAddress(r), ZenonTokenStandard: c13GenZts(r), IsBurnable: r.Intn(2) == 0, IsMintable: r.Intn(2) == 0, IsUtility: r.Intn(2) == 0}
	}
	if r.Intn(2) == 0 {
		ex.conf = &api.AccountBlockConfirmationDetail{NumConfirmations: c13GenU64(r), MomentumHeight: c13GenU64(r), MomentumHash: c13GenHash(r), MomentumTimestamp: r.Int63()}
	}
	if r.Intn(2) == 0 {
		ex.paired = c13GenBlock(r, 1)
	}
	return ex
}

func c13NonNil(a *big.Int) *big.Int {
	if a == nil {
		return big.NewInt(0)
	}
	return a
}

func c13RunGen(c *fw.C, caseID string) {
	r := c.Rand(caseID)
	rp := &c13RTReport{c: c, source: "gen"}
	nBlocks, nMom, nDet := 300, 120, 30
	for i := 0; i < nBlocks; i++ {
		b := c13GenBlock(r, 0)
		rp.block(b, c13GenExtras(r))
		c13JSONAltForms(c, r, b)
		if i == 0 {
			if data, err := json.Marshal(b); err == nil {
				c.Sample(map[string]interface{}{"kind": "generated account block (nom JSON)", "json": json.RawMessage(data)})
			}
		}
	}
	for i := 0; i < nMom; i++ {
		rp.momentum(c13GenMomentum(r))
	}
	for i := 0; i < nDet; i++ {
		d := &nom.DetailedMomentum{Momentum: c13GenMomentum(r)}
		n := r.Intn(4)
		for j := 0; j < n; j++ {
			d.AccountBlocks = append(d.AccountBlocks, c13GenBlock(r, 1))
		}
		rp.detailed(d)
	}
}

// c13JSONAltForms: textual forms a lenient reader may take for "the same" block (number/string
// forms of the amount, letter case of hex fields). The nom decoder must refuse them, or decode
// the very same block, or decode a block whose content no longer matches the claimed hash field
// (which the verifier refuses). Decoding to different content that still hashes to the same
// value would be a second representation under one hash.
func c13JSONAltForms(c *fw.C, r *rand.Rand, b *nom.AccountBlock) {
	if b.Amount == nil || r.Intn(4) != 0 {
		return
	}
	data, err := json.Marshal(b)
	if err != nil {
		return
	}
	var generic map[string]json.RawMessage
	if json.Unmarshal(data, &generic) != nil {
		return
	}
	amt := b.Amount.String()
	alts := map[string]string{
		"amount-leading-zero": `"00` + amt + `"`,
		"amount-plus-sign":    `"+` + amt + `"`,
		"amount-number":       amt,
		"amount-exponent":     `"` + amt + `e0"`,
		"amount-hex":          `"0x` + b.Amount.Text(16) + `"`,
		"amount-spaces":       `" ` + amt + ` "`,
		"amount-underscore":   `"` + amt + `_0"`,
	}
	claimed := b.ComputeHash()
	for name, raw := range alts {
		generic["amount"] = json.RawMessage(raw)
		alt, _ := json.Marshal(generic)
		o := new(nom.AccountBlock)
		err := c13Guard(func() error { return json.Unmarshal(alt, o) })
		c.Eval(1)
		switch {
		case err != nil:
			c.SetAdd("json_altform_outcomes", name+": refused")
		case c13BigEq(o.Amount, b.Amount):
			c.SetAdd("json_altform_outcomes", name+": decoded to the same amount")
		case o.ComputeHash() != claimed:
			c.SetAdd("json_altform_outcomes", name+": decoded to another amount, hash no longer matches (refused later by the hash check)")
		default:
			c13Violate(c, "json-altform-same-hash form="+name, map[string]interface{}{"json": string(alt), "amount_decoded": fmt.Sprint(o.Amount), "amount": amt})
		}
	}
}

// ---------------------------------------------------------------------------
// strict ABI walker (independent of /repo/vm/abi pack/unpack; only the parsed type tree is used)

type c13Contract struct {
	name string
	addr types.Address
	abi  abi.ABIContract
}

func c13Contracts() []c13Contract {
	return []c13Contract{
		{"Plasma", types.PlasmaContract, definition.ABIPlasma},
		{"Pillar", types.PillarContract, definition.ABIPillars},
		{"Token", types.TokenContract, definition.ABIToken},
		{"Sentinel", types.SentinelContract, definition.ABISentinel},
		{"Swap", types.SwapContract, definition.ABISwap},
		{"Stake", types.StakeContract, definition.ABIStake},
		{"Spork", types.SporkContract, definition.ABISpork},
		{"Liquidity", types.LiquidityContract, definition.ABILiquidity},
		{"Accelerator", types.AcceleratorContract, definition.ABIAccelerator},
		{"Bridge", types.BridgeContract, definition.ABIBridge},
		{"Htlc", types.HtlcContract, definition.ABIHtlc},
	}
}

func c13ContractByName(name string) *c13Contract {
	for _, ct := range c13Contracts() {
		if ct.name == name {
			ct := ct
			return &ct
		}
	}
	return nil
}

func c13ContractByAddr(a types.Address) *c13Contract {
	for _, ct := range c13Contracts() {
		if ct.addr == a {
			ct := ct
			return &ct
		}
	}
	return nil
}

func c13MethodNames(a abi.ABIContract) []string {
	var l []string
	for n := range a.Methods {
		l = append(l, n)
	}
	sort.Strings(l)
	return l
}

func c13MethodBySelector(a abi.ABIContract, data []byte) *abi.Method {
	if len(data) < 4 {
		return nil
	}
	for _, n := range c13MethodNames(a) {
		m := a.Methods[n]
		if bytes.Equal(m.Id(), data[:4]) {
			return &m
		}
	}
	return nil
}

func c13ArgTypes(m *abi.Method) []abi.Type {
	var ts []abi.Type
	for _, in := range m.Inputs {
		ts = append(ts, in.Type)
	}
	return ts
}

func c13IsDyn(t abi.Type) bool {
	return t.T == abi.StringTy || t.T == abi.BytesTy || t.T == abi.SliceTy
}

func c13Supported(ts []abi.Type) bool {
	for _, t := range ts {
		if t.T == abi.ArrayTy {
			return false
		}
		if t.T == abi.SliceTy && (t.Elem == nil || t.Elem.T == abi.ArrayTy || t.Elem.T == abi.SliceTy) {
			return false
		}
	}
	return true
}

// layout of a strictly encoded tuple, recorded while walking it
type c13Pad struct {
	lo, hi int    // byte range that the strict encoding fixes (zeros, or sign extension for intN)
	kind   string // static | bool | tail
}
type c13Off struct {
	word      int // position of the 32-byte offset word
	base      int // the offset is relative to this position
	tailStart int
	tailEnd   int
	top       bool
}
type c13Layout struct {
	pads []c13Pad
	offs []c13Off
}

func c13WordInt(w []byte) (int, bool) {
	v := new(big.Int).SetBytes(w)
	if v.BitLen() > 31 {
		return 0, false
	}
	return int(v.Int64()), true
}

func c13AllZero(b []byte) bool {
	for _, x := range b {
		if x != 0 {
			return false
		}
	}
	return true
}

func c13CanonStatic(t abi.Type, w []byte, at int, lay *c13Layout) string {
	pad := func(lo, hi int, kind string) {
		if lay != nil && hi > lo {
			lay.pads = append(lay.pads, c13Pad{at + lo, at + hi, kind})
		}
	}
	switch t.T {
	case abi.UintTy:
		n := 32 - t.Size/8
		pad(0, n, "static")
		if !c13AllZero(w[:n]) {
			return "dirty-uint-padding"
		}
	case abi.IntTy:
		n := 32 - t.Size/8
		pad(0, n, "static")
		if n > 0 {
			fill := byte(0)
			if w[n]&0x80 != 0 {
				fill = 0xff
			}
			for _, x := range w[:n] {
				if x != fill {
					return "int-not-sign-extended"
				}
			}
		}
	case abi.BoolTy:
		pad(0, 32, "bool")
		if !c13AllZero(w[:31]) || w[31] > 1 {
			return "dirty-bool"
		}
	case abi.AddressTy:
		pad(0, 32-types.AddressSize, "static")
		if !c13AllZero(w[:32-types.AddressSize]) {
			return "dirty-address-padding"
		}
	case abi.TokenStandardTy:
		pad(0, 32-types.ZenonTokenStandardSize, "static")
		if !c13AllZero(w[:32-types.ZenonTokenStandardSize]) {
			return "dirty-zts-padding"
		}
	case abi.HashTy:
	case abi.FixedBytesTy:
		pad(t.Size, 32, "static")
		if !c13AllZero(w[t.Size:]) {
			return "dirty-fixedbytes-padding"
		}
	default:
		return "unsupported-static-type"
	}
	return ""
}

// c13CanonDyn checks the tail of a dynamic value starting at buf[0] (absolute position at).
func c13CanonDyn(t abi.Type, buf []byte, at int, lay *c13Layout) (int, string) {
	if len(buf) < 32 {
		return 0, "tail-too-short"
	}
	n, ok := c13WordInt(buf[:32])
	if !ok || n > len(buf) {
		return 0, "length-overflow"
	}
	switch t.T {
	case abi.StringTy, abi.BytesTy:
		padded := (n + 31) / 32 * 32
		if len(buf) < 32+padded {
			return 0, "tail-too-short"
		}
		if lay != nil && padded > n {
			lay.pads = append(lay.pads, c13Pad{at + 32 + n, at + 32 + padded, "tail"})
		}
		if !c13AllZero(buf[32+n : 32+padded]) {
			return 0, "dirty-tail-padding"
		}
		return 32 + padded, ""
	case abi.SliceTy:
		elem := *t.Elem
		area := buf[32:]
		if len(area) < 32*n {
			return 0, "tail-too-short"
		}
		if !c13IsDyn(elem) {
			for i := 0; i < n; i++ {
				if why := c13CanonStatic(elem, area[32*i:32*i+32], at+32+32*i, lay); why != "" {
					return 0, why
				}
			}
			return 32 + 32*n, ""
		}
		pos := 32 * n
		for i := 0; i < n; i++ {
			off, ok := c13WordInt(area[32*i : 32*i+32])
			if !ok || off != pos {
				return 0, "offset-not-next-tail"
			}
			if pos > len(area) {
				return 0, "tail-too-short"
			}
			used, why := c13CanonDyn(elem, area[pos:], at+32+pos, lay)
			if why != "" {
				return 0, why
			}
			if lay != nil {
				lay.offs = append(lay.offs, c13Off{word: at + 32 + 32*i, base: at + 32, tailStart: at + 32 + pos, tailEnd: at + 32 + pos + used})
			}
			pos += used
		}
		return 32 + pos, ""
	}
	return 0, "unsupported-dynamic-type"
}

// c13CanonTuple returns "" when args is exactly the strict ABI encoding of some values of the
// given types (head of one word per argument, tails in argument order without gaps, minimal
// padding filled with zeros / sign extension, nothing after the last tail), else the reason.
func c13CanonTuple(ts []abi.Type, args []byte, lay *c13Layout) string {
	head := 32 * len(ts)
	if len(args) < head {
		return "head-too-short"
	}
	pos := head
	for i, t := range ts {
		w := args[32*i : 32*i+32]
		if c13IsDyn(t) {
			off, ok := c13WordInt(w)
			if !ok || off != pos {
				return "offset-not-next-tail"
			}
			if pos > len(args) {
				return "tail-too-short"
			}
			used, why := c13CanonDyn(t, args[pos:], pos, lay)
			if why != "" {
				return why
			}
			if lay != nil {
				lay.offs = append(lay.offs, c13Off{word: 32 * i, base: 0, tailStart: pos, tailEnd: pos + used, top: true})
			}
			pos += used
		} else if why := c13CanonStatic(t, w, 32*i, lay); why != "" {
			return why
		}
	}
	if pos != len(args) {
		return "trailing-bytes"
	}
	return ""
}

// c13CallCanonical judges the data of a call of contract ct: walker verdict and the repository's
// own pack(unpack(data)) == data. Returns (method name, walker reason, repack equal, known method).
func c13CallCanonical(ct *c13Contract, data []byte) (string, string, bool, bool) {
	m := c13MethodBySelector(ct.abi, data)
	if m == nil {
		return "", "", false, false
	}
	ts := c13ArgTypes(m)
	why := "unsupported"
	if c13Supported(ts) {
		why = c13CanonTuple(ts, data[4:], nil)
	}
	repackEq := false
	_ = c13Guard(func() error {
		vals, err := m.Inputs.UnpackValues(data[4:])
		if len(m.Inputs) == 0 {
			vals, err = nil, nil
		}
		if err != nil {
			return err
		}
		packed, err := m.Inputs.Pack(vals...)
		if err != nil {
			return err
		}
		repackEq = bytes.Equal(append(append([]byte{}, m.Id()...), packed...), data)
		return nil
	})
	return m.Name, why, repackEq, true
}

// ---------------------------------------------------------------------------
// non-canonical re-encodings of a canonical argument block

type c13Mut struct {
	kind string
	args []byte
}

func c13PutWord(buf []byte, at int, v int) {
	for i := 0; i < 32; i++ {
		buf[at+i] = 0
	}
	binary.BigEndian.PutUint64(buf[at+24:at+32], uint64(v))
}

// c13InsertGap inserts gap bytes at absolute position p (a tail start) and fixes every offset
// whose target moves while its base does not.
func c13InsertGap(args []byte, lay *c13Layout, p int, gap []byte) []byte {
	out := append([]byte{}, args...)
	for _, o := range lay.offs {
		if o.tailStart >= p && o.base < p {
			c13PutWord(out, o.word, o.tailStart-o.base+len(gap))
		}
	}
	res := append([]byte{}, out[:p]...)
	res = append(res, gap...)
	res = append(res, out[p:]...)
	return res
}

func c13Mutations(r *rand.Rand, ts []abi.Type, canon []byte) []c13Mut {
	var lay c13Layout
	if why := c13CanonTuple(ts, canon, &lay); why != "" {
		panic("c13: canonical encoding judged non-canonical by the walker: " + why)
	}
	var out []c13Mut
	add := func(kind string, b []byte) { out = append(out, c13Mut{kind, b}) }

	// trailing bytes
	add("trailing-byte", append(append([]byte{}, canon...), byte(1+r.Intn(255))))
	add("trailing-zero-word", append(append([]byte{}, canon...), make([]byte, 32)...))
	w := make([]byte, 32)
	r.Read(w)
	add("trailing-random-word", append(append([]byte{}, canon...), w...))

	// dirty padding
	byKind := map[string][]c13Pad{}
	for _, p := range lay.pads {
		byKind[p.kind] = append(byKind[p.kind], p)
	}
	if l := byKind["static"]; len(l) > 0 {
		p := l[r.Intn(len(l))]
		b := append([]byte{}, canon...)
		b[p.lo+r.Intn(p.hi-p.lo)] ^= byte(1 + r.Intn(255))
		add("dirty-static-padding", b)
		// highest padding byte only (the bits farthest from the value)
		p = l[r.Intn(len(l))]
		b = append([]byte{}, canon...)
		b[p.lo] ^= 0x80
		add("dirty-static-padding-msb", b)
	}
	if l := byKind["bool"]; len(l) > 0 {
		p := l[r.Intn(len(l))]
		b := append([]byte{}, canon...)
		b[p.hi-1] |= 2
		add("dirty-bool-value", b)
		b = append([]byte{}, canon...)
		b[p.lo+r.Intn(31)] = 1
		add("dirty-bool-padding", b)
	}
	if l := byKind["tail"]; len(l) > 0 {
		p := l[r.Intn(len(l))]
		b := append([]byte{}, canon...)
		b[p.lo+r.Intn(p.hi-p.lo)] = byte(1 + r.Intn(255))
		add("dirty-tail-padding", b)
	}

	// offsets
	var top, nested []c13Off
	for _, o := range lay.offs {
		if o.top {
			top = append(top, o)
		} else {
			nested = append(nested, o)
		}
	}
	sort.Slice(top, func(i, j int) bool { return top[i].word < top[j].word })
	if len(top) > 0 {
		o := top[r.Intn(len(top))]
		add("offset-gap-zero", c13InsertGap(canon, &lay, o.tailStart, make([]byte, 32)))
		gap := make([]byte, 32*(1+r.Intn(2)))
		r.Read(gap)
		add("offset-gap-random", c13InsertGap(canon, &lay, o.tailStart, gap))
	}
	if len(nested) > 0 {
		o := nested[r.Intn(len(nested))]
		gap := make([]byte, 32)
		r.Read(gap)
		add("nested-offset-gap", c13InsertGap(canon, &lay, o.tailStart, gap))
	}
	if len(top) >= 2 {
		// tails in reverse order
		head := append([]byte{}, canon[:32*len(ts)]...)
		var tails []byte
		pos := 32 * len(ts)
		for i := len(top) - 1; i >= 0; i-- {
			o := top[i]
			c13PutWord(head, o.word, pos)
			tails = append(tails, canon[o.tailStart:o.tailEnd]...)
			pos += o.tailEnd - o.tailStart
		}
		add("offset-tails-reordered", append(head, tails...))
		// aliased: two arguments with identical tails share one
		for i := 0; i < len(top); i++ {
			for j := i + 1; j < len(top); j++ {
				a, b := top[i], top[j]
				if bytes.Equal(canon[a.tailStart:a.tailEnd], canon[b.tailStart:b.tailEnd]) {
					// drop b's tail, point b to a's, shift later top-level tails down
					cut := b.tailEnd - b.tailStart
					buf := append([]byte{}, canon...)
					for _, o := range top {
						if o.tailStart > b.tailStart {
							c13PutWord(buf, o.word, o.tailStart-cut)
						}
					}
					c13PutWord(buf, b.word, a.tailStart)
					res := append([]byte{}, buf[:b.tailStart]...)
					res = append(res, buf[b.tailEnd:]...)
					add("offset-aliased", res)
					i = len(top)
					break
				}
			}
		}
	}
	if len(top) >= 1 {
		// duplicate the tail at the end and point to the copy: the original tail becomes dead bytes
		o := top[r.Intn(len(top))]
		buf := append([]byte{}, canon...)
		c13PutWord(buf, o.word, len(canon))
		buf = append(buf, canon[o.tailStart:o.tailEnd]...)
		add("offset-to-appended-copy", buf)
	}
	for _, m := range out {
		if bytes.Equal(m.args, canon) {
			panic("c13: mutation " + m.kind + " did not change the bytes")
		}
		if c13CanonTuple(ts, m.args, nil) == "" {
			panic("c13: mutation " + m.kind + " is judged canonical by the walker")
		}
	}
	return out
}

// c13SameValues: do canon and alt decode (by the repository's own unpack) to the same values?
// Returns "same", "unpack-fails" or "different".
func c13SameValues(m *abi.Method, canon, alt []byte) string {
	if len(m.Inputs) == 0 {
		return "same"
	}
	res := "unpack-fails"
	_ = c13Guard(func() error {
		a, err := m.Inputs.UnpackValues(canon)
		if err != nil {
			panic("c13: canonical data does not unpack: " + err.Error())
		}
		b, err := m.Inputs.UnpackValues(alt)
		if err != nil {
			return err
		}
		if fmt.Sprintf("%#v", c13Plain(a)) == fmt.Sprintf("%#v", c13Plain(b)) {
			res = "same"
		} else {
			res = "different"
		}
		return nil
	})
	return res
}

// c13Plain turns unpacked values into something printable without pointers
func c13Plain(v interface{}) interface{} {
	switch x := v.(type) {
	case *big.Int:
		return "big:" + x.String()
	case []*big.Int:
		var l []string
		for _, e := range x {
			l = append(l, e.String())
		}
		return l
	case []interface{}:
		var l []interface{}
		for _, e := range x {
			l = append(l, c13Plain(e))
		}
		return l
	}
	return v
}

// ---------------------------------------------------------------------------
// valid calls of every ABI method (token, amount, arguments); sender is the spork address, the
// only account that passes every static permission check and has the balance for every deposit.

type c13Call struct {
	zts    types.ZenonTokenStandard
	amount *big.Int
	args   []interface{}
}

var c13NameAlphabet = "abcdefghijklmnopqrstuvwxyzABCDEFGHIJKLMNOPQRSTUVWXYZ0123456789"

func c13RandName(r *rand.Rand, min, max int) string {
	n := min + r.Intn(max-min+1)
	b := make([]byte, n)
	for i := range b {
		b[i] = c13NameAlphabet[r.Intn(len(c13NameAlphabet))]
	}
	return string(b)
}

func c13RandText(r *rand.Rand, min, max int) string {
	n := min + r.Intn(max-min+1)
	b := make([]byte, n)
	for i := range b {
		b[i] = byte(' ' + r.Intn(95))
	}
	return string(b)
}

func c13RandUserAddr(r *rand.Rand) types.Address {
	return g.AllKeyPairs[r.Intn(len(g.AllKeyPairs))].Address
}

func c13RandHash(r *rand.Rand) types.Hash {
	var h types.Hash
	r.Read(h[:])
	return h
}

func c13RandBig(r *rand.Rand, max *big.Int) *big.Int {
	switch r.Intn(4) {
	case 0:
		return big.NewInt(0)
	case 1:
		return new(big.Int).Set(max)
	}
	return new(big.Int).Rand(r, new(big.Int).Add(max, big.NewInt(1)))
}

func c13HexAddr(r *rand.Rand) string {
	b := make([]byte, 20)
	r.Read(b)
	return "0x" + hex.EncodeToString(b)
}

// c13ValidCall returns a call that passes the static validation of contract.method (nil when the
// method needs nothing special: no arguments, no amount). idx 0 gives fixed, readable arguments.
func c13ValidCall(r *rand.Rand, contract, method string, sender types.Address, idx int) *c13Call {
	znn, qsr, zero := types.ZnnTokenStandard, types.QsrTokenStandard, types.ZeroTokenStandard
	n := func(v int64) *big.Int { return big.NewInt(v) }
	u256 := new(big.Int).Sub(c13Pow2(256), big.NewInt(1))
	name := "name-" + c13RandName(r, 1, 20)
	text := c13RandText(r, 1, 100)
	url := "https://" + c13RandName(r, 2, 20) + ".org/" + c13RandName(r, 0, 30)
	pct := func() uint8 { return uint8(r.Intn(101)) }
	u32 := func() uint32 { return uint32(1 + r.Intn(1<<31)) }
	guardians := func() []types.Address {
		l := make([]types.Address, 0)
		for i := 0; i < constants.MinGuardians+r.Intn(3); i++ {
			l = append(l, g.AllKeyPairs[i].Address)
		}
		return l
	}
	key := contract + "." + method
	switch key {
	// --- plasma
	case "Plasma.Fuse":
		return &c13Call{qsr, n(int64(10+r.Intn(50)) * 1e8), []interface{}{c13RandUserAddr(r)}}
	case "Plasma.CancelFuse", "Stake.Cancel", "Spork.ActivateSpork", "Liquidity.CancelLiquidityStake", "Htlc.Reclaim":
		return &c13Call{zero, n(0), []interface{}{c13RandHash(r)}}
	// --- pillar
	case "Pillar.Delegate", "Pillar.Revoke":
		return &c13Call{zero, n(0), []interface{}{name}}
	case "Pillar.Register":
		return &c13Call{znn, constants.PillarStakeAmount, []interface{}{name, c13RandUserAddr(r), c13RandUserAddr(r), pct(), pct()}}
	case "Pillar.UpdatePillar":
		return &c13Call{zero, n(0), []interface{}{name, c13RandUserAddr(r), c13RandUserAddr(r), pct(), pct()}}
	case "Pillar.RegisterLegacy":
		sig, err := implementation.SignLegacyPillarMessage(sender, g.Secp1PrvKey, g.Secp1PubKeyB64)
		if err != nil {
			panic(err)
		}
		return &c13Call{znn, constants.PillarStakeAmount, []interface{}{name, c13RandUserAddr(r), c13RandUserAddr(r), pct(), pct(), g.Secp1PubKeyB64, sig}}
	case "Pillar.DepositQsr", "Sentinel.DepositQsr":
		return &c13Call{qsr, n(1 + r.Int63n(1e10)), nil}
	// --- token
	case "Token.Burn":
		return &c13Call{znn, n(1 + r.Int63n(1e8)), nil}
	case "Token.IssueToken":
		max := c13RandBig(r, new(big.Int).Sub(c13Pow2(255), big.NewInt(1)))
		if max.Sign() == 0 {
			max = n(1)
		}
		total := c13RandBig(r, max)
		mintable := total.Cmp(max) != 0 || r.Intn(2) == 0
		return &c13Call{znn, constants.TokenIssueAmount, []interface{}{"tok-" + c13RandName(r, 1, 30), strings.ToUpper(c13RandName(r, 1, 6)) + "X", "zenon.network",
			total, max, uint8(r.Intn(19)), mintable, r.Intn(2) == 0, r.Intn(2) == 0}}
	case "Token.Mint":
		amt := c13RandBig(r, u256)
		if amt.Sign() == 0 {
			amt = n(1)
		}
		return &c13Call{zero, n(0), []interface{}{c13GenZtsNonZero(r), amt, c13RandUserAddr(r)}}
	case "Token.UpdateToken":
		return &c13Call{zero, n(0), []interface{}{c13GenZtsNonZero(r), c13RandUserAddr(r), r.Intn(2) == 0, r.Intn(2) == 0}}
	// --- sentinel
	case "Sentinel.Register":
		return &c13Call{znn, constants.SentinelZnnRegisterAmount, nil}
	// --- swap
	case "Swap.RetrieveAssets":
		sig, err := implementation.SignRetrieveAssetsMessage(sender, g.Secp1PrvKey, g.Secp1PubKeyB64)
		if err != nil {
			panic(err)
		}
		return &c13Call{zero, n(0), []interface{}{g.Secp1PubKeyB64, sig}}
	// --- stake
	case "Stake.Stake":
		return &c13Call{znn, n(int64(1+r.Intn(20)) * 1e8), []interface{}{constants.StakeTimeUnitSec * int64(1+r.Intn(12))}}
	case "Liquidity.LiquidityStake":
		return &c13Call{znn, n(int64(1+r.Intn(20)) * 1e8), []interface{}{constants.StakeTimeUnitSec * int64(1+r.Intn(12))}}
	// --- spork
	case "Spork.CreateSpork":
		return &c13Call{zero, n(0), []interface{}{"spork-" + c13RandName(r, 1, 30), text}}
	// --- liquidity
	case "Liquidity.BurnZnn":
		return &c13Call{zero, n(0), []interface{}{c13RandBig(r, u256)}}
	case "Liquidity.Fund", "Liquidity.SetAdditionalReward":
		return &c13Call{zero, n(0), []interface{}{c13RandBig(r, u256), c13RandBig(r, u256)}}
	case "Liquidity.ChangeAdministrator", "Liquidity.ProposeAdministrator", "Bridge.ChangeAdministrator", "Bridge.ProposeAdministrator":
		return &c13Call{zero, n(0), []interface{}{c13RandUserAddr(r)}}
	case "Liquidity.Donate", "Accelerator.Donate":
		return &c13Call{znn, n(1 + r.Int63n(1e8)), nil}
	case "Liquidity.NominateGuardians", "Bridge.NominateGuardians":
		return &c13Call{zero, n(0), []interface{}{guardians()}}
	case "Liquidity.SetIsHalted", "Bridge.SetAllowKeyGen":
		return &c13Call{zero, n(0), []interface{}{r.Intn(2) == 0}}
	case "Liquidity.SetTokenTuple":
		a := uint32(r.Intn(10001))
		b := uint32(r.Intn(10001))
		return &c13Call{zero, n(0), []interface{}{
			[]string{types.ZnnTokenStandard.String(), types.QsrTokenStandard.String()},
			[]uint32{a, 10000 - a}, []uint32{b, 10000 - b}, []*big.Int{c13RandBig(r, u256), c13RandBig(r, u256)}}}
	// --- accelerator
	case "Accelerator.CreateProject":
		return &c13Call{znn, constants.ProjectCreationAmount, []interface{}{c13RandText(r, 1, 30), text, url, c13RandBig(r, constants.ProjectZnnMaximumFunds), c13RandBig(r, constants.ProjectQsrMaximumFunds)}}
	case "Accelerator.AddPhase", "Accelerator.UpdatePhase":
		return &c13Call{zero, n(0), []interface{}{c13RandHash(r), c13RandText(r, 1, 30), text, url, c13RandBig(r, constants.ProjectZnnMaximumFunds), c13RandBig(r, constants.ProjectQsrMaximumFunds)}}
	case "Accelerator.VoteByName":
		return &c13Call{zero, n(0), []interface{}{c13RandHash(r), name, uint8(r.Intn(3))}}
	case "Accelerator.VoteByProdAddress":
		return &c13Call{zero, n(0), []interface{}{c13RandHash(r), uint8(r.Intn(3))}}
	// --- bridge
	case "Bridge.ChangeTssECDSAPubKey":
		pk := make([]byte, constants.CompressedECDSAPubKeyLength)
		r.Read(pk)
		sig := c13RandName(r, 0, 90)
		return &c13Call{zero, n(0), []interface{}{c13B64(pk), sig, sig}}
	case "Bridge.Halt":
		return &c13Call{zero, n(0), []interface{}{c13RandName(r, 0, 90)}}
	case "Bridge.Redeem", "Bridge.RevokeUnwrapRequest":
		return &c13Call{zero, n(0), []interface{}{c13RandHash(r), u32()}}
	case "Bridge.RemoveNetwork":
		return &c13Call{zero, n(0), []interface{}{u32(), u32()}}
	case "Bridge.RemoveTokenPair":
		return &c13Call{zero, n(0), []interface{}{u32(), u32(), c13GenZtsNonZero(r), c13HexAddr(r)}}
	case "Bridge.SetBridgeMetadata":
		return &c13Call{zero, n(0), []interface{}{`{"k":"` + c13RandName(r, 0, 40) + `"}`}}
	case "Bridge.SetNetwork":
		return &c13Call{zero, n(0), []interface{}{u32(), u32(), c13RandName(r, 3, 32), c13HexAddr(r), `{"m":` + fmt.Sprint(r.Intn(1000)) + `}`}}
	case "Bridge.SetNetworkMetadata":
		return &c13Call{zero, n(0), []interface{}{u32(), u32(), `{"m":` + fmt.Sprint(r.Intn(1000)) + `}`}}
	case "Bridge.SetOrchestratorInfo":
		return &c13Call{zero, n(0), []interface{}{1 + r.Uint64()>>1, u32(), u32(), u32()}}
	case "Bridge.SetRedeemDelay":
		return &c13Call{zero, n(0), []interface{}{r.Uint64()}}
	case "Bridge.SetTokenPair":
		return &c13Call{zero, n(0), []interface{}{u32(), u32(), c13GenZtsNonZero(r), c13HexAddr(r), r.Intn(2) == 0, r.Intn(2) == 0, r.Intn(2) == 0,
			c13RandBig(r, u256), uint32(r.Intn(10001)), u32(), `{"p":"` + c13RandName(r, 0, 20) + `"}`}}
	case "Bridge.UnwrapToken":
		amt := c13RandBig(r, u256)
		if amt.Sign() == 0 {
			amt = n(1)
		}
		return &c13Call{zero, n(0), []interface{}{u32(), u32(), c13RandHash(r), u32(), c13RandUserAddr(r), c13HexAddr(r), amt, c13RandName(r, 0, 90)}}
	case "Bridge.UpdateWrapRequest":
		return &c13Call{zero, n(0), []interface{}{c13RandHash(r), c13RandName(r, 0, 90)}}
	case "Bridge.WrapToken":
		return &c13Call{znn, n(1 + r.Int63n(1e8)), []interface{}{u32(), u32(), c13HexAddr(r)}}
	// --- htlc
	case "Htlc.Create":
		ht := uint8(r.Intn(2))
		lock := make([]byte, definition.HashTypeDigestSizes[ht])
		r.Read(lock)
		exp := r.Int63n(1 << 40)
		if idx > 0 && r.Intn(3) == 0 {
			exp = -exp // sign-extended argument
		}
		return &c13Call{znn, n(1 + r.Int63n(1e8)), []interface{}{c13RandUserAddr(r), exp, ht, uint8(r.Intn(256)), lock}}
	case "Htlc.Unlock":
		pre := make([]byte, r.Intn(70))
		r.Read(pre)
		return &c13Call{zero, n(0), []interface{}{c13RandHash(r), pre}}
	}
	return &c13Call{zero, n(0), nil}
}

func c13GenZtsNonZero(r *rand.Rand) types.ZenonTokenStandard {
	var z types.ZenonTokenStandard
	r.Read(z[:])
	z[0] |= 1
	return z
}

func c13B64(b []byte) string { return base64.StdEncoding.EncodeToString(b) }

// ---------------------------------------------------------------------------
// nodes, wire, sporks

func c13Open(dir, name string, keys []*wallet.KeyPair) *simnet.Node {
	return simnet.Open(name, filepath.Join(dir, name), simnet.MockGenesis(), keys)
}

// c13WireBlocks passes blocks through the RLP form of a TxMsg.
func c13WireBlocks(bs []*nom.AccountBlock) []*nom.AccountBlock {
	enc, err := rlp.EncodeToBytes(bs)
	if err != nil {
		panic("c13: rlp encode of account blocks: " + err.Error())
	}
	var out []*nom.AccountBlock
	if err := rlp.DecodeBytes(enc, &out); err != nil {
		panic("c13: rlp decode of account blocks: " + err.Error())
	}
	return out
}

// c13WireBatch passes detailed momentums through the RLP form of a BlocksMsg (and fills the
// caches like the protocol handler does).
func c13WireBatch(batch []*nom.DetailedMomentum) []*nom.DetailedMomentum {
	enc, err := rlp.EncodeToBytes(batch)
	if err != nil {
		panic("c13: rlp encode of momentums: " + err.Error())
	}
	var out []*nom.DetailedMomentum
	if err := rlp.DecodeBytes(enc, &out); err != nil {
		panic("c13: rlp decode of momentums: " + err.Error())
	}
	for _, d := range out {
		d.Momentum.EnsureCache()
	}
	return out
}

func c13Sync(to, from *simnet.Node) error {
	for {
		h, top := to.Height(), from.Height()
		if h >= top {
			return nil
		}
		end := h + 16
		if end > top {
			end = top
		}
		var err error
		if e := c13Guard(func() error { _, err = to.InsertChain(c13WireBatch(from.Range(h+1, end))); return nil }); e != nil {
			return e
		}
		if err != nil {
			return fmt.Errorf("InsertChain [%d..%d]: %w", h+1, end, err)
		}
	}
}

func c13Pack(a abi.ABIContract, method string, args ...interface{}) []byte {
	data, err := a.PackMethod(method, args...)
	if err != nil {
		panic(fmt.Sprintf("c13: cannot pack %s: %v", method, err))
	}
	return data
}

// c13ActivateSporks creates and activates the three implemented sporks on n and produces
// momentums until they are enforced. The spork ids are process globals of go-zenon.
func c13ActivateSporks(n *simnet.Node) {
	names := []string{"spork-accelerator", "spork-bridge-liquidity", "spork-htlc"}
	targets := []*types.ImplementedSpork{types.AcceleratorSpork, types.BridgeAndLiquiditySpork, types.HtlcSpork}
	var ids []types.Hash
	for _, name := range names {
		b, err := n.Send(g.Spork, types.SporkContract, types.ZeroTokenStandard, big.NewInt(0),
			c13Pack(definition.ABISpork, definition.SporkCreateMethodName, name, "activated by the C13 harness"))
		if err != nil {
			panic("c13: create spork: " + err.Error())
		}
		ids = append(ids, b.Hash)
	}
	n.MustProduce(2)
	for i, id := range ids {
		targets[i].SporkId = id
		types.ImplementedSporksMap[id] = true
		if _, err := n.Send(g.Spork, types.SporkContract, types.ZeroTokenStandard, big.NewInt(0),
			c13Pack(definition.ABISpork, definition.SporkActivateMethodName, id)); err != nil {
			panic("c13: activate spork: " + err.Error())
		}
	}
	n.MustProduce(int(constants.SporkMinHeightDelay) + 4)
	for _, sp := range targets {
		active, err := n.Chain.GetFrontierMomentumStore().IsSporkActive(sp)
		if err != nil || !active {
			panic(fmt.Sprintf("c13: spork %v not active after activation (err %v)", sp.SporkId, err))
		}
	}
}

func c13CloneBlock(b *nom.AccountBlock) *nom.AccountBlock {
	data, err := b.Serialize()
	if err != nil {
		panic(err)
	}
	nb, err := nom.DeserializeAccountBlock(data)
	if err != nil {
		panic(err)
	}
	return nb
}

func c13Ser(b *nom.AccountBlock) []byte {
	if b == nil {
		return nil
	}
	data, err := b.Serialize()
	if err != nil {
		panic(err)
	}
	return data
}

func c13StoredBlock(n *simnet.Node, h types.Hash) *nom.AccountBlock {
	b, err := n.Chain.GetFrontierMomentumStore().GetAccountBlockByHash(h)
	if err != nil {
		return nil
	}
	return b
}

func c13JSON(v interface{}) interface{} {
	data, err := json.Marshal(v)
	if err != nil {
		return fmt.Sprintf("unmarshalable: %v", err)
	}
	return json.RawMessage(data)
}

func c13ErrStr(err error) string {
	if err == nil {
		return ""
	}
	s := err.Error()
	if len(s) > 300 {
		s = s[:300] + "…"
	}
	return s
}

// c13ErrClass strips hashes / numbers from an error text so that it can be a set member.
func c13ErrClass(err error) string {
	if err == nil {
		return "accepted"
	}
	s := c13HexRun.ReplaceAllString(err.Error(), "#")
	s = c13Digits.ReplaceAllString(s, "N")
	if len(s) > 140 {
		s = s[:140]
	}
	return s
}

var c13HexRun = regexp.MustCompile(`[0-9a-fA-F]{8,}`)
var c13Digits = regexp.MustCompile(`[0-9]{2,}`)

// ---------------------------------------------------------------------------
// rt:work — seeded workload on a real producer, whole ledger round-tripped and synced over RLP

type c13Workload struct {
	c       *fw.C
	r       *rand.Rand
	P       *simnet.Node
	senders []*wallet.KeyPair
	pending []*nom.AccountBlock // confirmed sends to one of our accounts, not yet received
	scanned uint64
	sporks  bool
}

func (w *c13Workload) produce(k int) {
	for i := 0; i < k; i++ {
		w.P.MustProduce(1)
		h := w.P.Height()
		d := w.P.Detailed(h)
		for _, x := range d.AccountBlocks {
			// descendants are listed in the momentum content themselves
			if x.IsSendBlock() && !types.IsEmbeddedAddress(x.ToAddress) {
				for _, kp := range w.senders {
					if kp.Address == x.ToAddress {
						w.pending = append(w.pending, x)
					}
				}
			}
		}
	}
}

func (w *c13Workload) step() {
	r := w.r
	switch x := r.Intn(100); {
	case x < 40:
		cts := c13Contracts()
		ct := cts[r.Intn(len(cts))]
		names := c13MethodNames(ct.abi)
		name := names[r.Intn(len(names))]
		m := ct.abi.Methods[name]
		sender := g.Spork
		if r.Intn(3) == 0 {
			sender = w.senders[r.Intn(len(w.senders))]
		}
		call := c13ValidCall(r, ct.name, name, sender.Address, 1)
		args, err := m.Inputs.Pack(call.args...)
		if err != nil {
			panic(fmt.Sprintf("c13: cannot pack %s.%s: %v", ct.name, name, err))
		}
		form := "canonical"
		if ts := c13ArgTypes(&m); c13Supported(ts) && r.Intn(5) < 2 {
			muts := c13Mutations(r, ts, args)
			mu := muts[r.Intn(len(muts))]
			if c13SameValues(&m, args, mu.args) == "same" {
				args = mu.args
				form = mu.kind
			}
		}
		data := append(append([]byte{}, m.Id()...), args...)
		var serr error
		if e := c13Guard(func() error { _, serr = w.P.Send(sender, ct.addr, call.zts, call.amount, data); return nil }); e != nil {
			serr = e
		}
		w.c.Eval(1)
		w.c.Count("work_calls_submitted", 1)
		if serr != nil {
			w.c.Count("work_calls_refused", 1)
			w.c.SetAdd("work_call_refusals", c13ErrClass(serr))
		} else {
			w.c.Distinct("work-call/" + ct.name + "." + name + "/" + form)
		}
	case x < 62:
		from := w.senders[r.Intn(len(w.senders))]
		to := c13GenAddress(r)
		if types.IsEmbeddedAddress(to) {
			to = c13RandUserAddr(r)
		}
		zts := []types.ZenonTokenStandard{types.ZnnTokenStandard, types.QsrTokenStandard, types.ZeroTokenStandard}[r.Intn(3)]
		amt := big.NewInt(r.Int63n(1000))
		if zts == types.ZeroTokenStandard || r.Intn(5) == 0 {
			amt = big.NewInt(0)
		}
		var data []byte
		if r.Intn(2) == 0 {
			data = c13GenBytes(r, 1, 16, 40)
		}
		var serr error
		if e := c13Guard(func() error { _, serr = w.P.Send(from, to, zts, amt, data); return nil }); e != nil {
			serr = e
		}
		w.c.Eval(1)
		if serr != nil {
			w.c.SetAdd("work_transfer_refusals", c13ErrClass(serr))
		}
	case x < 82:
		if len(w.pending) == 0 {
			w.produce(1)
			return
		}
		i := r.Intn(len(w.pending))
		s := w.pending[i]
		w.pending = append(w.pending[:i], w.pending[i+1:]...)
		kp := simnet.KeyFor(s.ToAddress)
		var serr error
		if e := c13Guard(func() error { _, serr = w.P.Receive(kp, s.Hash); return nil }); e != nil {
			serr = e
		}
		w.c.Eval(1)
		if serr != nil {
			w.c.SetAdd("work_receive_refusals", c13ErrClass(serr))
		}
	default:
		w.produce(1 + r.Intn(2))
	}
}

func c13RunWork(c *fw.C, caseID, flavour string) {
	r := c.Rand(caseID)
	dir := c.ScratchDir(caseID)
	defer os.RemoveAll(dir)
	P := c13Open(dir, "P", g.PillarKeys)
	defer P.Stop()
	X := c13Open(dir, "X", nil)
	defer X.Stop()
	w := &c13Workload{c: c, r: r, P: P, sporks: flavour == "sporks",
		senders: []*wallet.KeyPair{g.User1, g.User2, g.User3, g.User4, g.User5, g.Spork, g.Pillar4, g.Pillar5}}
	w.produce(2)
	if w.sporks {
		c13ActivateSporks(P)
	}
	steps := 90
	for i := 0; i < steps; i++ {
		w.step()
	}
	w.produce(3)

	rp := &c13RTReport{c: c, source: "work"}
	top := P.Height()
	sampled := false
	for h := uint64(1); h <= top; h++ {
		d := P.Detailed(h)
		rp.momentum(d.Momentum)
		rp.detailed(d)
		if d.Momentum.Hash != c13NaiveMomentumHash(d.Momentum) {
			c13Violate(c, "stored-hash-mismatch type=Momentum", map[string]interface{}{"height": h, "momentum_proto": c13MomentumWitness(d.Momentum)})
		}
		for _, b := range d.AccountBlocks {
			if b == nil {
				c13Violate(c, "stored-block-missing", map[string]interface{}{"height": h})
				continue
			}
			rp.block(b, nil)
			all := append([]*nom.AccountBlock{b}, b.DescendantBlocks...)
			for _, x := range all {
				c.Eval(1)
				if x.Hash != c13NaiveBlockHash(x) {
					c13Violate(c, "stored-hash-mismatch type=AccountBlock", map[string]interface{}{"momentum_height": h, "block_proto": c13BlockWitness(x), "naive": c13NaiveBlockHash(x).String()})
				}
				c13CheckStoredCall(c, x)
			}
			if !sampled && len(b.DescendantBlocks) > 0 {
				sampled = true
				c.Sample(map[string]interface{}{"kind": "contract receive with descendants produced by a workload", "json": c13JSON(b)})
			}
		}
	}
	// the follower receives everything over RLP and must end in the same state
	if err := c13Sync(X, P); err != nil {
		c13Violate(c, "rlp-sync-refused", map[string]interface{}{"error": c13ErrStr(err), "producer_height": top, "follower_height": X.Height()})
		return
	}
	if diffs := simnet.DiffDumps(P.DumpFrontier(), X.DumpFrontier(), 5); len(diffs) > 0 {
		c13Violate(c, "rlp-sync-diverged", map[string]interface{}{"diffs": diffs})
	}
	c.Eval(1)
	c.Count("work_momentums", int(top))
}

// c13CheckStoredCall: the data of a stored user call of an embedded contract is canonical.
func c13CheckStoredCall(c *fw.C, b *nom.AccountBlock) {
	if b.BlockType != nom.BlockTypeUserSend || !types.IsEmbeddedAddress(b.ToAddress) {
		return
	}
	ct := c13ContractByAddr(b.ToAddress)
	if ct == nil {
		return
	}
	name, why, repackEq, known := c13CallCanonical(ct, b.Data)
	if !known {
		c13Violate(c, "stored-call-unknown-method contract="+ct.name, map[string]interface{}{"block": c13JSON(b)})
		return
	}
	c.Eval(1)
	c.Distinct("stored-call/" + ct.name + "." + name)
	if why == "unsupported" {
		why = ""
		if !repackEq {
			why = "repack-differs"
		}
	}
	if why != "" || !repackEq {
		c13Violate(c, fmt.Sprintf("stored-calldata-noncanonical contract=%s method=%s", ct.name, name),
			map[string]interface{}{"walker": why, "repack_equal": repackEq, "data": hex.EncodeToString(b.Data), "block": c13JSON(b)})
	}
}

// ---------------------------------------------------------------------------
// abi:* — non-canonical re-encodings of a valid call, per contract method

func c13RunAbi(c *fw.C, caseID, contract, method string) {
	r := c.Rand(caseID)
	idx := 0
	fmt.Sscanf(caseID[strings.LastIndex(caseID, ":")+1:], "%d", &idx)
	ct := c13ContractByName(contract)
	m, ok := ct.abi.Methods[method]
	if !ok {
		panic("c13: unknown method " + contract + "." + method)
	}
	key := contract + "." + method
	dir := c.ScratchDir(caseID)
	defer os.RemoveAll(dir)
	N := c13Open(dir, "N", g.PillarKeys)
	defer N.Stop()
	N.MustProduce(2)
	c13ActivateSporks(N)

	sender := g.Spork
	call := c13ValidCall(r, contract, method, sender.Address, idx)
	canonArgs, err := m.Inputs.Pack(call.args...)
	if err != nil {
		panic(fmt.Sprintf("c13: cannot pack %s: %v", key, err))
	}
	canon := append(append([]byte{}, m.Id()...), canonArgs...)
	ts := c13ArgTypes(&m)
	if !c13Supported(ts) {
		c.SetAdd("abi_unsupported_signature", key)
		return
	}
	if why := c13CanonTuple(ts, canonArgs, nil); why != "" {
		c13Violate(c, fmt.Sprintf("abi-pack-not-strict contract=%s method=%s", contract, method), map[string]interface{}{"walker": why, "data": hex.EncodeToString(canon)})
		return
	}
	tpl := &nom.AccountBlock{BlockType: nom.BlockTypeUserSend, Address: sender.Address, ToAddress: ct.addr,
		TokenStandard: call.zts, Amount: new(big.Int).Set(call.amount), Data: append([]byte{}, canon...)}
	var tx *nom.AccountBlockTransaction
	if e := c13Guard(func() error { tx, err = N.Generate(tpl, sender); return nil }); e != nil {
		err = e
	}
	c.Eval(1)
	if err != nil {
		c.Count("abi_baseline_refused", 1)
		c.SetAdd("abi_baseline_refused", key+": "+c13ErrClass(err))
		return
	}
	base := tx.Block
	if !bytes.Equal(base.Data, canon) {
		c13Violate(c, fmt.Sprintf("canonical-call-rewritten contract=%s method=%s", contract, method),
			map[string]interface{}{"sent": hex.EncodeToString(canon), "kept": hex.EncodeToString(base.Data)})
		return
	}
	apply := func(b *nom.AccountBlock) (*nom.AccountBlock, error) {
		var t *nom.AccountBlockTransaction
		var aerr error
		if e := c13Guard(func() error { t, aerr = N.Sup.ApplyBlock(b); return nil }); e != nil {
			return nil, e
		}
		if aerr != nil {
			return nil, aerr
		}
		return t.Block, nil
	}
	ref, err := apply(c13CloneBlock(base))
	if err != nil {
		c13Violate(c, fmt.Sprintf("generated-block-refused-on-delivery contract=%s method=%s", contract, method), map[string]interface{}{"error": c13ErrStr(err), "block": c13JSON(base)})
		return
	}
	refBytes := c13Ser(ref)
	c.Count("abi_baseline_accepted", 1)
	if idx == 0 {
		c.SetAdd("abi_methods_with_valid_baseline", key)
	}

	for _, mu := range c13Mutations(r, ts, canonArgs) {
		same := c13SameValues(&m, canonArgs, mu.args)
		if same == "different" {
			c.Count("abi_mutation_changed_values", 1)
			continue
		}
		data := append(append([]byte{}, m.Id()...), mu.args...)

		// (a) the sender hashes and signs the non-canonical form
		blk := c13CloneBlock(base)
		blk.Data = append([]byte{}, data...)
		blk.Hash = blk.ComputeHash()
		blk.Signature = sender.Sign(blk.Hash.Bytes())
		got, aerr := apply(blk)
		c.Eval(1)
		outcome := "refused"
		if aerr == nil {
			kept := c13CloneBlock(got)
			switch {
			case !bytes.Equal(kept.Data, canon):
				outcome = "accepted-noncanonical"
				c13Violate(c, fmt.Sprintf("noncanonical-calldata-accepted contract=%s method=%s kind=%s", contract, method, mu.kind),
					map[string]interface{}{"canonical": hex.EncodeToString(canon), "sent_and_kept": hex.EncodeToString(kept.Data), "decodes": same, "block": c13JSON(kept)})
			case kept.Hash != c13NaiveBlockHash(kept):
				outcome = "accepted-hash-mismatch"
				c13Violate(c, fmt.Sprintf("accepted-block-hash-mismatch contract=%s method=%s kind=%s", contract, method, mu.kind),
					map[string]interface{}{"block": c13JSON(kept)})
			default:
				outcome = "accepted-canonical"
			}
		} else {
			c.SetAdd("abi_refusal_reasons", mu.kind+" ("+same+"): "+c13ErrClass(aerr))
		}
		c.Distinct("abi/" + key + "/" + mu.kind + "/resigned-" + outcome)
		c.SetAdd("abi_outcomes", mu.kind+" re-signed: "+outcome)

		// (b) a third party swaps the data and keeps hash and signature of the canonical block
		blk2 := c13CloneBlock(base)
		blk2.Data = append([]byte{}, data...)
		got2, aerr2 := apply(blk2)
		c.Eval(1)
		outcome2 := "refused"
		if aerr2 == nil {
			if bytes.Equal(c13Ser(got2), refBytes) {
				outcome2 = "accepted-normalized"
			} else {
				outcome2 = "accepted-different-bytes"
				c13Violate(c, "variant-accepted blockType=UserSend field=Data outcome=stored-bytes-differ",
					map[string]interface{}{"contract": contract, "method": method, "kind": mu.kind, "canonical_block": c13JSON(ref), "kept_block": c13JSON(got2)})
			}
		}
		c.Distinct("abi/" + key + "/" + mu.kind + "/swapped-" + outcome2)
		c.SetAdd("abi_outcomes", mu.kind+" swapped under the canonical hash: "+outcome2)
	}
}

// ---------------------------------------------------------------------------
// var:* — a third party hands a variant of a pooled block to another node first

type c13Variant struct {
	role      string // fg: follower, variant by gossip | fb: follower, variant inside a momentum batch | pr: next producer, variant by gossip
	blockType string // UserSend | UserReceive | ContractReceive
	field     string
	sub       string // <mutation>@<scenario>
}

func c13VariantList() []c13Variant {
	type fs struct{ field, sub string }
	user := []fs{
		{"none", "control@transfer"},
		{"ChangesHash", "random@transfer"}, {"ChangesHash", "zero@transfer"}, {"ChangesHash", "random@call"},
		{"BasePlasma", "plus1@transfer"}, {"BasePlasma", "max@transfer"}, {"BasePlasma", "minus1@transfer"}, {"BasePlasma", "one@transfer"}, {"BasePlasma", "half@transfer"}, {"BasePlasma", "minus1@call"},
		{"TotalPlasma", "zero@transfer"}, {"TotalPlasma", "max@transfer"}, {"TotalPlasma", "plus1@transfer"}, {"TotalPlasma", "half@transfer"},
		{"PublicKey", "otherkey@transfer"}, {"PublicKey", "garbage@transfer"}, {"PublicKey", "trailing@transfer"}, {"PublicKey", "empty@transfer"},
		{"Signature", "noncanonicalS@transfer"}, {"Signature", "trailing@transfer"}, {"Signature", "bitflip@transfer"}, {"Signature", "empty@transfer"},
		{"Data", "abi-dirty@call"}, {"Data", "abi-offset@call"}, {"Data", "abi-trailing@call"},
	}
	recv := []fs{
		{"none", "control@receive"},
		{"ChangesHash", "random@receive"}, {"ChangesHash", "zero@receive"},
		{"BasePlasma", "max@receive"}, {"TotalPlasma", "max@receive"}, {"BasePlasma", "minus1@receive"}, {"BasePlasma", "one@receive"}, {"TotalPlasma", "plus1@receive"},
		{"PublicKey", "garbage@receive"}, {"Signature", "noncanonicalS@receive"}, {"Signature", "trailing@receive"},
	}
	var contract []fs
	for _, sc := range []string{"issue", "refund", "plain"} {
		contract = append(contract,
			fs{"none", "control@" + sc},
			fs{"ChangesHash", "random@" + sc},
			fs{"BasePlasma", "one@" + sc}, fs{"BasePlasma", "max@" + sc},
			fs{"TotalPlasma", "one@" + sc},
			fs{"PublicKey", "garbage@" + sc}, fs{"Signature", "garbage@" + sc})
	}
	for _, sc := range []string{"issue", "refund"} {
		for _, f := range []string{"ChangesHash", "BasePlasma", "TotalPlasma", "PublicKey", "Signature",
			"ToAddress", "Amount", "TokenStandard", "Data", "FusedPlasma", "Nonce", "Address", "DescendantBlocks",
			"Height", "PreviousHash", "Difficulty", "Version", "FromBlockHash", "MomentumAcknowledged"} {
			contract = append(contract, fs{"descendant." + f, "alter@" + sc})
		}
	}
	user = append(user, fs{"Data", "nil-vs-empty@transfer"}, fs{"Amount", "nil@transfer"})
	recv = append(recv, fs{"Amount", "nil@receive"})
	var l []c13Variant
	for _, x := range []fs{
		{"none", "control@momentum"},
		{"Signature", "noncanonicalS@momentum"}, {"Signature", "trailing@momentum"}, {"Signature", "bitflip@momentum"}, {"Signature", "empty@momentum"},
		{"PublicKey", "otherkey@momentum"}, {"PublicKey", "garbage@momentum"}, {"PublicKey", "trailing@momentum"},
		{"AccountBlocks", "reversed@momentum"}, {"AccountBlocks", "duplicated@momentum"}, {"AccountBlocks", "dropped@momentum"}, {"AccountBlocks", "extra@momentum"},
	} {
		l = append(l, c13Variant{"fm", "Momentum", x.field, x.sub})
	}
	for _, role := range []string{"fg", "fb", "pr"} {
		for _, x := range user {
			l = append(l, c13Variant{role, "UserSend", x.field, x.sub})
		}
		for _, x := range recv {
			l = append(l, c13Variant{role, "UserReceive", x.field, x.sub})
		}
		for _, x := range contract {
			l = append(l, c13Variant{role, "ContractReceive", x.field, x.sub})
		}
	}
	return l
}

// order of the ed25519 base point group, little endian addition helper
var c13EdL, _ = new(big.Int).SetString("7237005577332262213973186563042994240857116359379907606001950938285454250989", 10)

func c13NonCanonicalS(sig []byte) []byte {
	if len(sig) != 64 {
		return nil
	}
	le := func(b []byte) []byte {
		o := make([]byte, len(b))
		for i := range b {
			o[i] = b[len(b)-1-i]
		}
		return o
	}
	s := new(big.Int).SetBytes(le(sig[32:]))
	s.Add(s, c13EdL)
	raw := s.Bytes()
	if len(raw) > 32 {
		return nil
	}
	be := make([]byte, 32)
	copy(be[32-len(raw):], raw)
	out := append([]byte{}, sig[:32]...)
	return append(out, le(be)...)
}

// c13Mutate alters exactly one field of v (a private copy). Returns false when the alteration is
// not applicable to this block.
func c13Mutate(r *rand.Rand, v *nom.AccountBlock, field, mutation string) bool {
	rnd := func(n int) []byte { b := make([]byte, n); r.Read(b); return b }
	target := v
	if strings.HasPrefix(field, "descendant.") {
		if len(v.DescendantBlocks) == 0 {
			return false
		}
		target = v.DescendantBlocks[r.Intn(len(v.DescendantBlocks))]
		field = strings.TrimPrefix(field, "descendant.")
		switch field {
		case "ChangesHash":
			target.ChangesHash = c13RandHash(r)
		case "BasePlasma":
			target.BasePlasma = 1 + uint64(r.Intn(100000))
		case "TotalPlasma":
			target.TotalPlasma = 1 + uint64(r.Intn(100000))
		case "PublicKey":
			target.PublicKey = rnd(32)
		case "Signature":
			target.Signature = rnd(64)
		case "ToAddress":
			if target.ToAddress == g.User3.Address {
				target.ToAddress = g.User4.Address
			} else {
				target.ToAddress = g.User3.Address
			}
		case "Amount":
			target.Amount = new(big.Int).Add(target.Amount, big.NewInt(1+r.Int63n(1e15)))
		case "TokenStandard":
			if target.TokenStandard == types.ZnnTokenStandard {
				target.TokenStandard = types.QsrTokenStandard
			} else {
				target.TokenStandard = types.ZnnTokenStandard
			}
		case "Data":
			target.Data = rnd(1 + r.Intn(40))
		case "FusedPlasma":
			target.FusedPlasma = 1 + uint64(r.Intn(100000))
		case "Nonce":
			copy(target.Nonce.Data[:], rnd(8))
			if target.Nonce.Data == [8]byte{} {
				target.Nonce.Data[0] = 1
			}
		case "Address":
			if target.Address == types.StakeContract {
				target.Address = types.PlasmaContract
			} else {
				target.Address = types.StakeContract
			}
		case "DescendantBlocks":
			target.DescendantBlocks = []*nom.AccountBlock{c13CloneBlock(target)}
		case "Height":
			target.Height += 1 + uint64(r.Intn(5))
		case "PreviousHash":
			target.PreviousHash = c13RandHash(r)
		case "Difficulty":
			target.Difficulty = 1 + uint64(r.Intn(1000))
		case "Version":
			target.Version = 2
		case "FromBlockHash":
			target.FromBlockHash = c13RandHash(r)
		case "MomentumAcknowledged":
			target.MomentumAcknowledged.Hash = c13RandHash(r)
		default:
			panic("c13: unknown descendant field " + field)
		}
		return true
	}
	switch field {
	case "none":
	case "ChangesHash":
		if mutation == "zero" {
			if v.ChangesHash.IsZero() {
				return false
			}
			v.ChangesHash = types.ZeroHash
		} else {
			v.ChangesHash = c13RandHash(r)
		}
	case "BasePlasma":
		switch mutation {
		case "plus1":
			v.BasePlasma++
		case "max":
			v.BasePlasma = ^uint64(0)
		case "minus1":
			if v.BasePlasma < 2 {
				return false
			}
			v.BasePlasma--
		case "half":
			if v.BasePlasma < 2 {
				return false
			}
			v.BasePlasma /= 2
		default:
			if v.BasePlasma == 1 {
				return false
			}
			v.BasePlasma = 1
		}
	case "TotalPlasma":
		switch mutation {
		case "zero":
			if v.TotalPlasma == 0 {
				return false
			}
			v.TotalPlasma = 0
		case "max":
			v.TotalPlasma = ^uint64(0)
		case "plus1":
			v.TotalPlasma++
		case "half":
			if v.TotalPlasma < 2 {
				return false
			}
			v.TotalPlasma /= 2
		default:
			v.TotalPlasma = 1
		}
	case "PublicKey":
		switch mutation {
		case "otherkey":
			v.PublicKey = append(ed25519.PublicKey{}, g.User7.Public...)
		case "garbage":
			v.PublicKey = rnd(32)
		case "trailing":
			v.PublicKey = append(append(ed25519.PublicKey{}, v.PublicKey...), 0)
		case "empty":
			if len(v.PublicKey) == 0 {
				return false
			}
			v.PublicKey = nil
		}
	case "Signature":
		switch mutation {
		case "noncanonicalS":
			s := c13NonCanonicalS(v.Signature)
			if s == nil {
				return false
			}
			v.Signature = s
		case "trailing":
			v.Signature = append(append([]byte{}, v.Signature...), 0)
		case "bitflip":
			if len(v.Signature) == 0 {
				return false
			}
			v.Signature = append([]byte{}, v.Signature...)
			v.Signature[r.Intn(len(v.Signature))] ^= 1 << uint(r.Intn(8))
		case "empty":
			if len(v.Signature) == 0 {
				return false
			}
			v.Signature = nil
		case "garbage":
			v.Signature = rnd(64)
		}
	case "Amount":
		// in-memory form only: nil instead of zero
		if v.Amount != nil && v.Amount.Sign() != 0 {
			return false
		}
		v.Amount = nil
	case "Data":
		if mutation == "nil-vs-empty" {
			if len(v.Data) != 0 {
				return false
			}
			if v.Data == nil {
				v.Data = []byte{}
			} else {
				v.Data = nil
			}
			return true
		}
		ct := c13ContractByAddr(v.ToAddress)
		if ct == nil {
			return false
		}
		m := c13MethodBySelector(ct.abi, v.Data)
		if m == nil {
			return false
		}
		want := map[string]string{"abi-dirty": "dirty-", "abi-offset": "offset-", "abi-trailing": "trailing-"}[mutation]
		var pick []c13Mut
		for _, mu := range c13Mutations(r, c13ArgTypes(m), v.Data[4:]) {
			if strings.HasPrefix(mu.kind, want) && c13SameValues(m, v.Data[4:], mu.args) == "same" {
				pick = append(pick, mu)
			}
		}
		if len(pick) == 0 {
			return false
		}
		v.Data = append(append([]byte{}, v.Data[:4]...), pick[r.Intn(len(pick))].args...)
	default:
		panic("c13: unknown field " + field)
	}
	return true
}

func c13BlockTypeName(t uint64) string {
	switch t {
	case nom.BlockTypeUserSend:
		return "UserSend"
	case nom.BlockTypeUserReceive:
		return "UserReceive"
	case nom.BlockTypeContractReceive:
		return "ContractReceive"
	case nom.BlockTypeContractSend:
		return "ContractSend"
	}
	return fmt.Sprint(t)
}

func c13InContent(m *nom.Momentum, h types.Hash) bool {
	for _, hd := range m.Content {
		if hd.Hash == h {
			return true
		}
	}
	return false
}

func c13Balance(n *simnet.Node, a types.Address, z types.ZenonTokenStandard) string {
	bal, err := n.Chain.GetFrontierMomentumStore().GetAccountStore(a).GetBalance(z)
	if err != nil {
		return "error: " + err.Error()
	}
	return bal.String()
}

func c13RunVariant(c *fw.C, caseID string, v c13Variant) {
	if v.blockType == "Momentum" {
		c13RunMomentumVariant(c, caseID, v)
		return
	}
	r := c.Rand(caseID)
	mutation, scenario := v.sub, ""
	if i := strings.Index(v.sub, "@"); i >= 0 {
		mutation, scenario = v.sub[:i], v.sub[i+1:]
	}
	dir := c.ScratchDir(caseID)
	defer os.RemoveAll(dir)
	A := c13Open(dir, "A", g.PillarKeys)
	defer A.Stop()
	var keysB []*wallet.KeyPair
	if v.role == "pr" {
		keysB = g.PillarKeys
	}
	B := c13Open(dir, "B", keysB)
	defer B.Stop()
	inconclusive := func(format string, a ...interface{}) { c.Inconclusive(fmt.Sprintf(format, a...)) }

	A.MustProduce(2 + r.Intn(3))

	// ---- A pools the honest block b
	var b *nom.AccountBlock
	var err error
	amount := big.NewInt(1 + r.Int63n(1e9))
	switch v.blockType {
	case "UserSend":
		if scenario == "call" {
			call := c13ValidCall(r, "Token", "IssueToken", g.User1.Address, 1)
			b, err = A.Send(g.User1, types.TokenContract, call.zts, call.amount, c13Pack(definition.ABIToken, "IssueToken", call.args...))
		} else {
			data := c13GenBytes(r, 1, 10)
			if v.field == "Amount" {
				amount = big.NewInt(0)
			}
			if mutation == "nil-vs-empty" {
				data = nil
			}
			b, err = A.Send(g.User1, g.User2.Address, types.ZnnTokenStandard, amount, data)
		}
	case "UserReceive":
		var s *nom.AccountBlock
		s, err = A.Send(g.User1, g.User2.Address, types.QsrTokenStandard, amount, nil)
		if err == nil {
			A.MustProduce(1)
			b, err = A.Receive(g.User2, s.Hash)
		}
	case "ContractReceive":
		var s *nom.AccountBlock
		var ct types.Address
		switch scenario {
		case "issue":
			ct = types.TokenContract
			call := c13ValidCall(r, "Token", "IssueToken", g.User1.Address, 1)
			call.args[3] = big.NewInt(1 + r.Int63n(1e6)) // total supply > 0: the receive mints to the owner
			call.args[4] = big.NewInt(2e6)
			call.args[6] = true
			s, err = A.Send(g.User1, ct, call.zts, call.amount, c13Pack(definition.ABIToken, "IssueToken", call.args...))
		case "refund":
			// registration without the QSR deposit fails in the contract: the ZNN is sent back
			ct = types.SentinelContract
			s, err = A.Send(g.User1, ct, types.ZnnTokenStandard, constants.SentinelZnnRegisterAmount, c13Pack(definition.ABISentinel, definition.RegisterSentinelMethodName))
		default:
			ct = types.PillarContract
			s, err = A.Send(g.User2, ct, types.ZeroTokenStandard, big.NewInt(0), c13Pack(definition.ABIPillars, definition.DelegateMethodName, g.Pillar2Name))
		}
		if err == nil {
			A.MustProduce(1) // confirms the call; the producing pillar pools the contract receive
			for _, x := range A.Chain.GetUncommittedAccountBlocksByAddress(ct) {
				if x.BlockType == nom.BlockTypeContractReceive && x.FromBlockHash == s.Hash {
					b = x
				}
			}
			if b == nil {
				inconclusive("no pooled contract receive for the call on A")
				return
			}
			if scenario != "plain" && len(b.DescendantBlocks) == 0 {
				inconclusive("contract receive of scenario %s has no descendants", scenario)
				return
			}
		}
	}
	if err != nil || b == nil {
		inconclusive("cannot build the honest block: %v", err)
		return
	}
	if err := c13Sync(B, A); err != nil {
		inconclusive("initial sync failed: %v", err)
		return
	}
	if c13BlockTypeName(b.BlockType) != v.blockType {
		panic("c13: scenario built a block of the wrong type")
	}

	// ---- the variant
	honest := c13CloneBlock(b)
	variant := c13CloneBlock(b)
	if !c13Mutate(r, variant, v.field, mutation) {
		c.Count("variant_not_applicable", 1)
		return
	}
	wired := c13WireBlocks([]*nom.AccountBlock{variant})[0]
	differs := !bytes.Equal(c13Ser(wired), c13Ser(honest))
	if v.field != "none" && !differs {
		c.Count("variant_identical_on_the_wire", 1)
		return
	}
	if wired.Hash != honest.Hash {
		panic("c13: variant changed the hash field")
	}
	var changed []string
	c13DiffBlock(honest, wired, "", &changed)
	detail := map[string]interface{}{
		"role":       map[string]string{"fg": "B is a follower; variant arrives by gossip before A's momentum", "fb": "B is a follower; variant arrives inside a momentum batch from a peer, then the honest batch", "pr": "B is the next producer; variant arrives by gossip before the honest block"}[v.role],
		"block_type": v.blockType, "field": v.field, "mutation": v.sub, "changed_fields": c13Uniq(changed),
		"honest_block": c13JSON(honest), "variant_block": c13JSON(wired),
	}
	c.Eval(1)
	if v.field == "descendant.ChangesHash" {
		c.Sample(map[string]interface{}{"kind": "variant delivery case", "case": caseID, "changed_fields": c13Uniq(changed), "variant_block": c13JSON(wired)})
	}
	key := fmt.Sprintf("var/%s/%s/%s/%s", v.role, v.blockType, v.field, v.sub)
	report := func(outcome string) {
		c.Distinct(key + "/" + outcome)
		c.SetAdd("variant_outcomes", fmt.Sprintf("%s %s %s [%s]: %s", v.role, v.blockType, v.field, v.sub, outcome))
		if (outcome == "follower-stuck" || outcome == "stored-bytes-differ") && v.field != "none" {
			c13Violate(c, fmt.Sprintf("variant-accepted blockType=%s field=%s outcome=%s", v.blockType, v.field, outcome), detail)
		} else if outcome == "follower-stuck" || outcome == "stored-bytes-differ" || outcome == "honest-momentum-refused" {
			c13Violate(c, fmt.Sprintf("control-failed blockType=%s outcome=%s", v.blockType, outcome), detail)
		}
	}
	gossip := func(n *simnet.Node, blk *nom.AccountBlock) error {
		var gerr error
		if e := c13Guard(func() error { gerr = n.Bridge.AddAccountBlocks([]*nom.AccountBlock{blk}); return nil }); e != nil {
			return e
		}
		return gerr
	}
	insert := func(n *simnet.Node, batch []*nom.DetailedMomentum) error {
		var ierr error
		if e := c13Guard(func() error { _, ierr = n.InsertChain(batch); return nil }); e != nil {
			return e
		}
		return ierr
	}
	hashes := []types.Hash{honest.Hash}
	for _, d := range honest.DescendantBlocks {
		hashes = append(hashes, d.Hash)
	}
	compare := func() string {
		for _, h := range hashes {
			sa, sb := c13Ser(c13StoredBlock(A, h)), c13Ser(c13StoredBlock(B, h))
			if sa == nil || sb == nil {
				detail["stored_missing"] = fmt.Sprintf("A has it: %v, B has it: %v", sa != nil, sb != nil)
				return "stored-bytes-differ"
			}
			if !bytes.Equal(sa, sb) {
				detail["stored_on_A"] = c13JSON(c13StoredBlock(A, h))
				detail["stored_on_B"] = c13JSON(c13StoredBlock(B, h))
				return "stored-bytes-differ"
			}
		}
		// a follower that took A's momentum must hold A's whole ledger; two producers may
		// legitimately differ in what else their momentums confirm
		if v.role != "pr" && A.Height() == B.Height() {
			if diffs := simnet.DiffDumps(A.DumpFrontier(), B.DumpFrontier(), 4); len(diffs) > 0 {
				detail["ledger_diffs"] = diffs
				return "stored-bytes-differ"
			}
		}
		return "same-bytes"
	}

	// followerFlow: A confirms b; B must be able to follow and hold A's bytes.
	followerFlow := func(accepted bool) {
		m, perr := A.Produce(0)
		if perr != nil || m == nil || !c13InContent(m, honest.Hash) {
			inconclusive("A did not confirm its own block: %v", perr)
			return
		}
		honestBatch := func() []*nom.DetailedMomentum { return c13WireBatch(A.Range(m.Height, m.Height)) }
		if v.role == "fb" {
			tampered := honestBatch()
			replaced := false
			for i, blk := range tampered[0].AccountBlocks {
				if blk.Hash == honest.Hash {
					tampered[0].AccountBlocks[i] = c13CloneBlock(wired)
					replaced = true
				}
			}
			if !replaced {
				inconclusive("block not found in A's detailed momentum")
				return
			}
			terr := insert(B, tampered)
			detail["tampered_batch_result"] = c13ErrStr(terr)
			if terr == nil {
				if B.Height() != A.Height() {
					inconclusive("tampered batch returned nil but B did not advance")
					return
				}
				res := compare()
				if res == "same-bytes" {
					res = "accepted-normalized"
				}
				report(res)
				return
			}
			// did the refused batch leave the variant in B's pool?
			accepted = B.Chain.GetPatch(honest.Address, honest.Identifier()) != nil
			detail["variant_left_in_pool_by_refused_batch"] = accepted
		}
		ierr := insert(B, honestBatch())
		if ierr != nil {
			detail["insert_error"] = c13ErrStr(ierr)
			ierr2 := insert(B, honestBatch())
			detail["insert_error_on_retry"] = c13ErrStr(ierr2)
			B.Restart()
			ierr3 := insert(B, honestBatch())
			detail["insert_error_after_restart_of_B"] = c13ErrStr(ierr3)
			if accepted {
				report("follower-stuck")
			} else {
				report("honest-momentum-refused")
			}
			return
		}
		res := compare()
		switch {
		case res != "same-bytes":
			report(res)
		case accepted:
			report("accepted-normalized")
		default:
			report("rejected")
		}
	}

	// "seen before": in every second case B has heard and verified the honest block already, and a rollback of its
	// last momentum (re-inserted at once) has emptied its pool again — the same long-lived node, no restart — before
	// the third party's variant arrives. Whatever B remembers about the hash must not make the variant acceptable.
	if idx := strings.LastIndex(caseID, ":"); idx >= 0 && v.field != "none" && B.Height() >= 3 {
		if n, _ := strconv.Atoi(caseID[idx+1:]); n%2 == 1 {
			herr := gossip(B, c13WireBlocks([]*nom.AccountBlock{honest})[0])
			if herr == nil {
				top := B.Frontier()
				batch := c13WireBatch(B.Range(top.Height, top.Height))
				prev, _ := B.Chain.GetFrontierMomentumStore().GetMomentumByHeight(top.Height - 1)
				ins := B.Chain.AcquireInsert("c13 seen-before")
				rerr := B.Chain.RollbackTo(ins, prev.Identifier())
				ins.Unlock()
				if rerr == nil {
					rerr = insert(B, batch)
				}
				if rerr != nil || B.Chain.GetPatch(honest.Address, honest.Identifier()) != nil {
					inconclusive("could not empty B's pool after the honest block was heard: %v", rerr)
					return
				}
				detail["seen_before"] = "B verified the honest block by gossip, then a rollback + re-insert of its last momentum emptied its pool"
				c.Count("variants_offered_to_a_node_that_verified_the_honest_block_before", 1)
				key += "/seen-before"
			}
		}
	}

	switch v.role {
	case "fg":
		gerr := gossip(B, wired)
		detail["gossip_result"] = c13ErrStr(gerr)
		if gerr != nil {
			c.SetAdd("variant_refusal_reasons", v.blockType+" "+v.field+": "+c13ErrClass(gerr))
		}
		followerFlow(gerr == nil)
	case "fb":
		followerFlow(false)
	case "pr":
		gerr := gossip(B, wired)
		detail["gossip_result"] = c13ErrStr(gerr)
		if gerr != nil {
			c.SetAdd("variant_refusal_reasons", v.blockType+" "+v.field+": "+c13ErrClass(gerr))
			followerFlow(false)
			return
		}
		// the honest block arrives late
		lerr := gossip(B, c13WireBlocks([]*nom.AccountBlock{honest})[0])
		detail["late_honest_gossip_result"] = c13ErrStr(lerr)
		var mB *nom.Momentum
		var perr error
		if e := c13Guard(func() error { mB, perr = B.Produce(0); return nil }); e != nil {
			perr = e
		}
		if perr != nil || mB == nil {
			detail["producer_B_error"] = c13ErrStr(perr)
			followerFlow(true)
			return
		}
		if !c13InContent(mB, honest.Hash) {
			detail["producer_B"] = "produced a momentum without the block"
			inconclusive("B produced a momentum without the pooled block")
			return
		}
		mA, aerr := A.Produce(0)
		if aerr != nil || mA == nil || !c13InContent(mA, honest.Hash) {
			inconclusive("A did not confirm its own block: %v", aerr)
			return
		}
		detail["momentum_of_A"] = mA.Hash.String()
		detail["momentum_of_B"] = mB.Hash.String()
		detail["same_momentum"] = mA.Hash == mB.Hash
		res := compare()
		if res == "same-bytes" {
			report("accepted-normalized")
			return
		}
		// how far does the variant get? a fresh node syncing from B, and the effect of the stored descendant
		F := c13Open(dir, "F", nil)
		defer F.Stop()
		detail["fresh_node_syncing_from_B"] = "accepts B's chain"
		if err := c13Sync(F, B); err != nil {
			detail["fresh_node_syncing_from_B"] = "refuses: " + c13ErrStr(err)
		}
		effect := ""
		if v.field == "descendant.ToAddress" || v.field == "descendant.Amount" || v.field == "descendant.TokenStandard" {
			for i, d := range wired.DescendantBlocks {
				hd := honest.DescendantBlocks[i]
				if c13Ser(d) != nil && bytes.Equal(c13Ser(d), c13Ser(hd)) {
					continue
				}
				kp := simnet.KeyFor(d.ToAddress)
				if kp == nil {
					continue
				}
				before := c13Balance(B, d.ToAddress, d.TokenStandard)
				var rerr error
				if e := c13Guard(func() error { _, rerr = B.Receive(kp, d.Hash); return nil }); e != nil {
					rerr = e
				}
				if rerr == nil {
					_ = c13Guard(func() error { B.MustProduce(1); return nil })
				}
				after := c13Balance(B, d.ToAddress, d.TokenStandard)
				honestCredit := big.NewInt(0)
				if hd.ToAddress == d.ToAddress && hd.TokenStandard == d.TokenStandard {
					honestCredit = hd.Amount
				}
				bb, ok1 := new(big.Int).SetString(before, 10)
				ba, ok2 := new(big.Int).SetString(after, 10)
				if rerr == nil && ok1 && ok2 && new(big.Int).Sub(ba, bb).Cmp(honestCredit) != 0 {
					effect = fmt.Sprintf("receiver credited %v instead of %v", new(big.Int).Sub(ba, bb), honestCredit)
				}
				detail["effect_on_B"] = map[string]interface{}{
					"receiver_of_altered_descendant": d.ToAddress.String(), "token": d.TokenStandard.String(),
					"honest_descendant": fmt.Sprintf("to %v amount %v token %v", hd.ToAddress, hd.Amount, hd.TokenStandard),
					"stored_descendant": fmt.Sprintf("to %v amount %v token %v", d.ToAddress, d.Amount, d.TokenStandard),
					"receive_result":    c13ErrStr(rerr), "balance_before": before, "balance_after": after, "effect": effect,
				}
			}
		}
		report(res)
		if effect != "" {
			c13Violate(c, fmt.Sprintf("variant-effect blockType=%s field=%s effect=altered-descendant-credited", v.blockType, v.field), detail)
		}
	}
}

// c13RunMomentumVariant: a peer hands follower B a variant of A's momentum that differs only
// outside the momentum hash (key, signature encoding, the accompanying block list) before the honest one arrives.
func c13RunMomentumVariant(c *fw.C, caseID string, v c13Variant) {
	r := c.Rand(caseID)
	mutation := v.sub
	if i := strings.Index(v.sub, "@"); i >= 0 {
		mutation = v.sub[:i]
	}
	dir := c.ScratchDir(caseID)
	defer os.RemoveAll(dir)
	A := c13Open(dir, "A", g.PillarKeys)
	defer A.Stop()
	B := c13Open(dir, "B", nil)
	defer B.Stop()
	A.MustProduce(2 + r.Intn(3))
	s1, err := A.Send(g.User1, g.User2.Address, types.ZnnTokenStandard, big.NewInt(1+r.Int63n(1e6)), nil)
	if err != nil {
		c.Inconclusive("cannot send: " + err.Error())
		return
	}
	A.MustProduce(1)
	if err := c13Sync(B, A); err != nil {
		c.Inconclusive("initial sync failed: " + err.Error())
		return
	}
	// the momentum under test confirms three user blocks of two accounts
	if _, err := A.Receive(g.User2, s1.Hash); err != nil {
		c.Inconclusive("cannot receive: " + err.Error())
		return
	}
	for i := 0; i < 2; i++ {
		if _, err := A.Send(g.User3, g.User4.Address, types.QsrTokenStandard, big.NewInt(1+r.Int63n(1e6)), c13GenBytes(r, 1, 8)); err != nil {
			c.Inconclusive("cannot send: " + err.Error())
			return
		}
	}
	m, err := A.Produce(0)
	if err != nil || m == nil {
		c.Inconclusive(fmt.Sprintf("cannot produce: %v", err))
		return
	}
	honest := func() []*nom.DetailedMomentum { return c13WireBatch(A.Range(m.Height, m.Height)) }
	// an unrelated valid block of A's pool, for the "extra" list
	extra, _ := A.Send(g.User5, g.User1.Address, types.ZnnTokenStandard, big.NewInt(1), nil)

	t := honest()
	tm := t[0].Momentum
	rnd := func(n int) []byte { b := make([]byte, n); r.Read(b); return b }
	switch v.field {
	case "none":
	case "Signature":
		switch mutation {
		case "noncanonicalS":
			tm.Signature = c13NonCanonicalS(tm.Signature)
		case "trailing":
			tm.Signature = append(tm.Signature, 0)
		case "bitflip":
			tm.Signature[r.Intn(len(tm.Signature))] ^= 1 << uint(r.Intn(8))
		case "empty":
			tm.Signature = nil
		}
	case "PublicKey":
		switch mutation {
		case "otherkey":
			for _, kp := range g.PillarKeys {
				if !bytes.Equal(kp.Public, tm.PublicKey) {
					tm.PublicKey = append(ed25519.PublicKey{}, kp.Public...)
					break
				}
			}
		case "garbage":
			tm.PublicKey = rnd(32)
		case "trailing":
			tm.PublicKey = append(tm.PublicKey, 0)
		}
	case "AccountBlocks":
		l := t[0].AccountBlocks
		switch mutation {
		case "reversed":
			for i, j := 0, len(l)-1; i < j; i, j = i+1, j-1 {
				l[i], l[j] = l[j], l[i]
			}
		case "duplicated":
			t[0].AccountBlocks = append(l, c13CloneBlock(l[r.Intn(len(l))]))
		case "dropped":
			i := r.Intn(len(l))
			t[0].AccountBlocks = append(l[:i:i], l[i+1:]...)
		case "extra":
			if extra == nil {
				c.Count("variant_not_applicable", 1)
				return
			}
			t[0].AccountBlocks = append(l, c13WireBlocks([]*nom.AccountBlock{extra})[0])
		}
	}
	detail := map[string]interface{}{"field": v.field, "mutation": v.sub, "honest_momentum": c13JSON(A.Detailed(m.Height)), "variant_momentum": c13JSON(t[0])}
	insert := func(batch []*nom.DetailedMomentum) error {
		var ierr error
		if e := c13Guard(func() error { _, ierr = B.InsertChain(batch); return nil }); e != nil {
			return e
		}
		return ierr
	}
	c.Eval(1)
	key := fmt.Sprintf("var/fm/Momentum/%s/%s", v.field, v.sub)
	report := func(outcome string) {
		c.Distinct(key + "/" + outcome)
		c.SetAdd("variant_outcomes", fmt.Sprintf("fm Momentum %s [%s]: %s", v.field, v.sub, outcome))
		if outcome == "follower-stuck" || outcome == "stored-bytes-differ" {
			if v.field == "none" {
				c13Violate(c, "control-failed blockType=Momentum outcome="+outcome, detail)
			} else {
				c13Violate(c, fmt.Sprintf("variant-accepted blockType=Momentum field=%s outcome=%s", v.field, outcome), detail)
			}
		}
	}
	same := func() bool {
		if A.Height() != B.Height() {
			return false
		}
		ma, _ := A.Frontier().Serialize()
		mb, _ := B.Frontier().Serialize()
		if !bytes.Equal(ma, mb) {
			detail["stored_momentum_on_B"] = c13JSON(B.Frontier())
			return false
		}
		if diffs := simnet.DiffDumps(A.DumpFrontier(), B.DumpFrontier(), 4); len(diffs) > 0 {
			detail["ledger_diffs"] = diffs
			return false
		}
		return true
	}
	// compare at the height of m: A may hold one more pooled block but no further momentum
	terr := insert(t)
	detail["variant_batch_result"] = c13ErrStr(terr)
	if terr != nil {
		c.SetAdd("variant_refusal_reasons", "Momentum "+v.field+": "+c13ErrClass(terr))
	}
	accepted := terr == nil && B.Height() == m.Height
	if accepted && !same() {
		report("stored-bytes-differ")
		return
	}
	herr := insert(honest())
	detail["honest_batch_result"] = c13ErrStr(herr)
	if herr != nil || B.Height() != m.Height {
		B.Restart()
		detail["honest_batch_result_after_restart_of_B"] = c13ErrStr(insert(honest()))
		report("follower-stuck")
		return
	}
	switch {
	case !same():
		report("stored-bytes-differ")
	case accepted:
		report("accepted-normalized")
	default:
		report("rejected")
	}
}
