//go:build verif

package checks

// C15 — untrusted peers cannot crash, stall or bloat the node.
//
// Four pieces, all driving the REAL code:
//   proto/seq/sync/fetch : real protocol.ProtocolManager (+fetcher+downloader) on a populated
//                          simnet node, fake peers over p2p.MsgPipe (c15_peers_proto.go)
//   rlpx                 : genuine RLPx frame reader/writer and encryption handshake on mutated
//                          byte streams (c15_peers_rlpx.go)
//   disc                 : genuine discovery udp instance over an in-memory conn (c15_peers_disc.go)
//   stack                : real p2p.Server on loopback TCP + real ProtocolManager, hostile RLPx
//                          client (c15_peers_stack.go)
//
// Development aids (environment variables, no effect when unset): C15_ONLY=<case id prefix> restricts
// the case list; C15_DEBUG=1 prints the node's protocol/downloader/fetcher log to the child log.
// A child that dies leaves its crash dump in out/C15/crash/<case>.txt (the death signature is
// derived from it: top go-zenon frame and its caller).
//
// Oracles (restated from the property, never imported from the code under test):
// 10 MiB per message, 512 hashes / 128 momentums per reply, a panic anywhere is a
// violation, an honest second session keeps being served, a corrupted frame /
// packet is never delivered.

import (
	"fmt"
	"os"
	"path/filepath"
	"regexp"
	"runtime/debug"
	"strings"
	"time"

	"verif/harness/fw"
)

const (
	c15MaxMsg    = 10 * 1024 * 1024 // stated limit: bytes per protocol message
	c15MaxHashes = 512              // stated limit: hashes per reply
	c15MaxBlocks = 128              // stated limit: momentums per reply
)

func init() {
	fw.Register(&fw.Check{
		ID:    "C15",
		Level: "exploration",
		Rule: "cases are (piece, message code or mutation kind, input class, variant): every protocol message code (9 + unknown codes) x {valid, random, truncated, bit-flipped, empty, lying size, oversize, hostile well-formed values} before and after the handshake, " +
			"random interleaved sequences, hostile sync-server and announce/deliver scripts (hash policy x block policy), RLPx stream mutations (every header/MAC bit, sampled body bits, every truncation, swap/dup/drop/insert, keyed hostile frames, handshake mutants), " +
			"discovery datagrams (bit flips, truncations, random, re-hashed forgeries, expired/replayed/unbonded/oversize/hostile values) and a full-stack loopback piece; " +
			"distinct_nontrivial counts distinct (piece, code/mutation, class, observed outcome class) tuples that were actually executed against the real code with the control part (honest probe / intact prefix frames / unmutated packet) succeeding",
		Cases:            c15Cases,
		Run:              c15Run,
		DeathIsViolation: true,
		DeathSig:         c15DeathSig,
		MinDistinct:      120,
		Assumptions: []string{
			"limits are restated from the property: 10 MiB per message, 512 hashes and 128 momentums per reply",
			"'blocked indefinitely' is restated as bounded progress: after every hostile message an honest probe (TxMsg[], BlocksMsg[], GetBlockHashesFromNumber) on a second session must be answered; a 20 s real-time watchdog firing is inconclusive, never a verdict",
			"protocol piece: fake peers are p2p.NewPeer test peers over p2p.MsgPipe, so Peer.Disconnect is a no-op there; the real disconnect path is exercised by the stack piece only",
			"background work started by a hostile message (fetcher/downloader goroutines) is awaited with a short real-time settle plus the chain insert lock as barrier before the case ends; a crash after that window is attributed to the following case of the same child",
			"the encryption handshake and discovery code use crypto/rand and time.Now internally; verdicts do not depend on either (expiry classes use timestamps hours away from now)",
			"allocation is not measured; the monitor asserts refusal / reply sizes, not memory figures",
			"-asan pass of DESIGN C15 is not implemented (framework has no asan runner)",
		},
	})
}

// ---------------------------------------------------------------------------
// case list

func c15Cases(tier string, seed int64) []string {
	thorough := tier == "thorough"
	var l []string
	// proto: one case per (phase, code, class, k)
	nk := 1
	if thorough {
		nk = 60
	}
	for _, e := range c15Catalogue() {
		for k := 0; k < nk; k++ {
			l = append(l, fmt.Sprintf("proto:%s:%d:%s:%d", e.phase, e.code, e.class, k))
		}
	}
	nSeq := 16
	if thorough {
		nSeq = 1200
	}
	for k := 0; k < nSeq; k++ {
		l = append(l, fmt.Sprintf("seq:%d", k))
	}
	// sync: hash policy x block policy
	for i, hp := range c15HashPolicies {
		for j, bp := range c15BlockPolicies {
			if !thorough && (i+j)%3 != 0 && !(hp == "h-unknown" && bp == "b-fake-seq") {
				continue
			}
			nv := 1
			if thorough {
				nv = 4
			}
			for k := 0; k < nv; k++ {
				l = append(l, fmt.Sprintf("sync:%s:%s:%d", hp, bp, k))
			}
		}
	}
	for _, bp := range c15FetchPolicies {
		nv := 1
		if thorough {
			nv = 6
		}
		for k := 0; k < nv; k++ {
			l = append(l, fmt.Sprintf("fetch:%s:%d", bp, k))
		}
	}
	// rlpx
	for _, m := range c15FrameMuts {
		nv := 2
		if thorough {
			nv = 60
		}
		for k := 0; k < nv; k++ {
			l = append(l, fmt.Sprintf("rlpx:frame:%s:%d", m, k))
		}
	}
	for _, m := range c15HsMuts {
		nv := 1
		if thorough {
			nv = c15HsVariants
		}
		for k := 0; k < nv; k++ {
			l = append(l, fmt.Sprintf("rlpx:hs:%s:%d", m, k))
		}
	}
	// discovery
	for _, m := range c15DiscClasses {
		nv := 1
		if thorough {
			nv = 30
		}
		for k := 0; k < nv; k++ {
			l = append(l, fmt.Sprintf("disc:%s:%d", m, k))
		}
	}
	// full stack
	for _, m := range c15StackClasses {
		nv := 1
		if thorough {
			nv = 8
		}
		for k := 0; k < nv; k++ {
			l = append(l, fmt.Sprintf("stack:%s:%d", m, k))
		}
	}
	nRace := 3
	if thorough {
		nRace = 40
	}
	for k := 0; k < nRace; k++ {
		l = append(l, fmt.Sprintf("race:sessions:%d", k))
	}
	if only := os.Getenv("C15_ONLY"); only != "" {
		// development aid: run only the cases with this prefix
		var f []string
		for _, cs := range l {
			if strings.HasPrefix(cs, only) {
				f = append(f, cs)
			}
		}
		l = f
	}
	return c15Interleave(l)
}

// c15Interleave reorders the list so that consecutive entries (which land on
// different shards: the driver deals round-robin) mix cheap and expensive pieces.
func c15Interleave(l []string) []string {
	groups := map[string][]string{}
	var order []string
	for _, cs := range l {
		p := cs[:strings.IndexByte(cs, ':')]
		if _, ok := groups[p]; !ok {
			order = append(order, p)
		}
		groups[p] = append(groups[p], cs)
	}
	out := make([]string, 0, len(l))
	for len(out) < len(l) {
		for _, p := range order {
			g := groups[p]
			if len(g) == 0 {
				continue
			}
			// take a share proportional to the group's size so groups end together
			n := 1 + len(g)/64
			if n > len(g) {
				n = len(g)
			}
			out = append(out, g[:n]...)
			groups[p] = g[n:]
		}
	}
	return out
}

// ---------------------------------------------------------------------------
// dispatcher

func c15Run(c *fw.C, caseID string) {
	crash := c15CrashFile(c.OutDir, caseID)
	_ = os.MkdirAll(filepath.Dir(crash), 0o755)
	if f, err := os.Create(crash); err == nil {
		_ = debug.SetCrashOutput(f, debug.CrashOptions{})
		_ = f.Close()
	}
	parts := strings.Split(caseID, ":")
	t0 := time.Now()
	defer func() { c.Logf("c15 case %s took %v", caseID, time.Since(t0).Round(time.Millisecond)) }()
	switch parts[0] {
	case "proto":
		c15RunProto(c, caseID, parts)
	case "seq":
		c15RunSeq(c, caseID, parts)
	case "sync":
		c15RunSync(c, caseID, parts)
	case "fetch":
		c15RunFetch(c, caseID, parts)
	case "rlpx":
		c15RunRlpx(c, caseID, parts)
	case "disc":
		c15RunDisc(c, caseID, parts)
	case "stack":
		c15RunStack(c, caseID, parts)
	case "race":
		c15RunRace(c, caseID)
	default:
		c.Inconclusive("unknown case kind " + caseID)
	}
	_ = debug.SetCrashOutput(nil, debug.CrashOptions{})
	_ = os.Remove(crash)
}

func c15CrashFile(outDir, caseID string) string {
	return filepath.Join(outDir, "crash", regexp.MustCompile(`[^A-Za-z0-9_.-]+`).ReplaceAllString(caseID, "_")+".txt")
}

// c15ClassOf strips the trailing variant index of a case id.
func c15ClassOf(caseID string) string {
	if i := strings.LastIndexByte(caseID, ':'); i > 0 {
		return strings.ReplaceAll(caseID[:i], ":", " ")
	}
	return caseID
}

var c15FrameRe = regexp.MustCompile(`(?m)^(github\.com/zenon-network/go-zenon/[^\s(]+(?:\([^)]*\)[^\s(]*)*)\(`)

// c15TopFrame extracts "panic message class" and the first go-zenon frame of a crash dump.
func c15TopFrame(dump string) (what, frame string) {
	i := strings.Index(dump, "panic: ")
	if j := strings.Index(dump, "fatal error: "); j >= 0 && (i < 0 || j < i) {
		i = j
	}
	if i < 0 {
		return "", ""
	}
	rest := dump[i:]
	line := rest
	if k := strings.IndexByte(line, '\n'); k >= 0 {
		line = line[:k]
	}
	switch {
	case strings.Contains(line, "nil pointer dereference"):
		what = "nil-deref"
	case strings.Contains(line, "index out of range"), strings.Contains(line, "slice bounds out of range"):
		what = "index-out-of-range"
	case strings.Contains(line, "fatal error"):
		what = "fatal-" + strings.ReplaceAll(strings.TrimSpace(strings.TrimPrefix(line, "fatal error:")), " ", "-")
	case strings.Contains(line, "makeslice"), strings.Contains(line, "out of memory"):
		what = "alloc"
	default:
		what = "panic"
	}
	// only the panicking goroutine: up to the first blank line after "goroutine "
	g := strings.Index(rest, "\ngoroutine ")
	if g >= 0 {
		rest = rest[g+1:]
		if e := strings.Index(rest, "\n\n"); e >= 0 {
			rest = rest[:e]
		}
	}
	var frames []string
	for _, m := range c15FrameRe.FindAllStringSubmatch(rest, -1) {
		f := strings.TrimPrefix(m[1], "github.com/zenon-network/go-zenon/")
		if strings.HasPrefix(f, "common.DealWithErr") {
			continue
		}
		if k := strings.Index(f, ".func"); k > 0 {
			f = f[:k] // closures: name of the enclosing function
		}
		if len(frames) == 0 || frames[len(frames)-1] != f {
			frames = append(frames, f)
		}
		if len(frames) == 2 {
			break
		}
	}
	if len(frames) == 0 {
		return what, "?"
	}
	return what, strings.Join(frames, " <- ")
}

// c15DeathSig runs in the driver: the child wrote its crash dump to a per-case file.
func c15DeathSig(caseID, tail string) string {
	dump := tail
	if data, err := os.ReadFile(c15CrashFile(fw.OutDir("C15"), caseID)); err == nil && len(data) > 0 {
		dump = string(data)
	}
	what, frame := c15TopFrame(dump)
	// proto / stack / disc / rlpx cases: the class is part of the signature; script pieces
	// (seq, sync, fetch) are named by piece only, the policy pair is in the witness (case id)
	cl := c15ClassOf(caseID)
	switch caseID[:strings.IndexByte(caseID+":", ':')] {
	case "seq", "sync", "fetch":
		cl = caseID[:strings.IndexByte(caseID+":", ':')]
	}
	if what == "" {
		return "node-death " + cl
	}
	return fmt.Sprintf("node-death %s %s @ %s", cl, what, frame)
}
