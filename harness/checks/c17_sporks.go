// C17 — spork-gated rules switch on by chain height only, identically everywhere.
//
// Monitors on real simnet nodes (producer P with the pillar keys, follower F fed
// through InsertChain):
//
//	table:<order>:<k>  the three implemented sporks are created and activated in the
//	                   given order at seeded heights; every gated contract method is
//	                   called with send blocks acknowledging momentums around each
//	                   enforcement height E (live: ack = frontier and frontier-lag;
//	                   retro: ack E-3..E+3 long after the boundary); expected
//	                   available <=> acknowledged height >= E of the guarding spork.
//	auth:<k>           authority and timing of CreateSpork / ActivateSpork, hostile
//	                   names, double activation; a model of the spork storage.
//	halt:<k>           a node that does not implement an enforced spork must exit(2)
//	                   at E and again when the same directory is reopened (run in
//	                   grand-child processes of this binary, see c17GrandChild).
package checks

import (
	"bufio"
	"bytes"
	"encoding/base64"
	"encoding/binary"
	"encoding/json"
	"fmt"
	"math/big"
	"math/rand"
	"os"
	"os/exec"
	"path/filepath"
	"runtime"
	"sort"
	"strconv"
	"strings"
	"sync"
	"time"

	"github.com/inconshreveable/log15"
	g "github.com/zenon-network/go-zenon/chain/genesis/mock"
	"github.com/zenon-network/go-zenon/chain/nom"
	"github.com/zenon-network/go-zenon/common"
	"github.com/zenon-network/go-zenon/common/db"
	"github.com/zenon-network/go-zenon/common/types"
	"github.com/zenon-network/go-zenon/vm/abi"
	"github.com/zenon-network/go-zenon/vm/constants"
	"github.com/zenon-network/go-zenon/vm/embedded/definition"
	"github.com/zenon-network/go-zenon/wallet"

	"verif/harness/fw"
	"verif/harness/simnet"
)

// ===== sporks =====
const c17EnvVar = "VERIF_C17_GRANDCHILD"

func init() {
	if spec := os.Getenv(c17EnvVar); spec != "" {
		// grand-child of a halt:* case: run the scenario and exit; fw never starts.
		c17GrandChild(spec)
		os.Exit(0)
	}
	fw.Register(&fw.Check{
		ID:    "C17",
		Level: "exploration",
		Rule: "table:<order>:<k> = one chain where the 3 implemented sporks are created+activated by the designated key in that order " +
			"with seeded gaps (same-momentum create/activate, overlapping windows); every gated method (45) and gated plasma price (3) is " +
			"probed with send blocks whose MomentumAcknowledged is at E-3..E+3 of each spork, live (ack=frontier, ack=frontier-lag) and " +
			"retro (old ack, high frontier), on P, and re-evaluated on the synced follower; a distinct case is " +
			"(pass, spork, contract.method, ack-E offset, outcome). auth:<k> = seeded sequences of create/activate by designated and " +
			"other keys, hostile names, repeated activation, judged by a model of the spork storage; distinct = (scenario, key class, outcome). " +
			"halt:<k> = unimplemented spork in a grand-child process, producing and syncing; distinct = (mode, parameters).",
		Cases:       c17Cases,
		Run:         c17Run,
		MinDistinct: 150,
		Assumptions: []string{
			"process globals types.*Spork.SporkId / ImplementedSporksMap / constants.InitialBridgeAdministrator are patched identically for all in-process nodes (as the repository's own tests do) and restored after each case",
			"enforcement height E is read from the spork contract storage (definition ABI used as a codec only); the activation momentum is the momentum that confirms the ActivateSpork send block",
			"a method is 'available' when the send block is accepted by the real supervisor, 'unavailable' when it is refused with method-not-found / contract-doesnt-exist",
			"receive-time errors are observed through the pillar's own log record (send-block-hash, returned-error)",
		},
	})
}

func c17Cases(tier string, seed int64) []string {
	orders := []string{"ABH", "AHB", "BAH", "BHA", "HAB", "HBA"}
	nTable, nAuth, nHalt := 8, 16, 12
	if tier == "thorough" {
		nTable, nAuth, nHalt = 100, 200, 64
	}
	var l []string
	for k := 0; k < nHalt; k++ {
		l = append(l, fmt.Sprintf("halt:%d", k))
	}
	for k := 0; k < nTable; k++ {
		for _, o := range orders {
			l = append(l, fmt.Sprintf("table:%s:%d", o, k))
		}
	}
	for k := 0; k < nAuth; k++ {
		l = append(l, fmt.Sprintf("auth:%d", k))
	}
	return l
}

func c17Run(c *fw.C, caseID string) {
	defer func() {
		if r := recover(); r != nil {
			c.Violation("harness-panic "+c17Kind(caseID), map[string]interface{}{"case": caseID, "panic": fmt.Sprint(r), "stack": c17Stack()})
		}
	}()
	switch c17Kind(caseID) {
	case "table":
		c17RunTable(c, caseID)
	case "auth":
		c17RunAuth(c, caseID)
	case "halt":
		c17RunHalt(c, caseID)
	default:
		c.Inconclusive("unknown case kind " + caseID)
	}
}

func c17Kind(caseID string) string {
	if i := strings.IndexByte(caseID, ':'); i > 0 {
		return caseID[:i]
	}
	return caseID
}

func c17Stack() string {
	buf := make([]byte, 1<<14)
	n := runtime.Stack(buf, false)
	return string(buf[:n])
}

// ---------------------------------------------------------------------------
// process globals

type c17SporkDef struct {
	name   string
	letter byte
	impl   *types.ImplementedSpork
}

var c17Sporks = []*c17SporkDef{
	{"accelerator", 'A', types.AcceleratorSpork},
	{"bridge", 'B', types.BridgeAndLiquiditySpork},
	{"htlc", 'H', types.HtlcSpork},
}

func c17SporkByLetter(b byte) *c17SporkDef {
	for _, s := range c17Sporks {
		if s.letter == b {
			return s
		}
	}
	return nil
}

type c17Globals struct {
	ids       []types.Hash
	impl      map[types.Hash]bool
	community types.Address
	cStart    uint64
	cEnd      uint64
	admin     types.Address
}

func c17SaveGlobals() *c17Globals {
	s := &c17Globals{impl: map[types.Hash]bool{}}
	for _, sp := range c17Sporks {
		s.ids = append(s.ids, sp.impl.SporkId)
	}
	for k, v := range types.ImplementedSporksMap {
		s.impl[k] = v
	}
	s.community = types.CommunitySporkAddress
	s.cStart = definition.CommunitySporkAddressStartHeight
	s.cEnd = definition.CommunitySporkAddressEndHeight
	s.admin = constants.InitialBridgeAdministrator
	return s
}

func (s *c17Globals) restore() {
	for i, sp := range c17Sporks {
		sp.impl.SporkId = s.ids[i]
	}
	for k := range types.ImplementedSporksMap {
		delete(types.ImplementedSporksMap, k)
	}
	for k, v := range s.impl {
		types.ImplementedSporksMap[k] = v
	}
	types.CommunitySporkAddress = s.community
	definition.CommunitySporkAddressStartHeight = s.cStart
	definition.CommunitySporkAddressEndHeight = s.cEnd
	constants.InitialBridgeAdministrator = s.admin
}

// ---------------------------------------------------------------------------
// receive-time observation: the pillar logs every auto-receive it generates

type c17RecvLog struct {
	mu sync.Mutex
	m  map[types.Hash]string // send hash -> returned error ("" = nil)
}

func c17InstallPillarLog() *c17RecvLog {
	simnet.Setup()
	rl := &c17RecvLog{m: map[types.Hash]string{}}
	common.PillarLogger.SetHandler(log15.FuncHandler(func(r *log15.Record) error {
		if r.Msg != "generated embedded-block" {
			return nil
		}
		var h types.Hash
		found := false
		errText := ""
		for i := 0; i+1 < len(r.Ctx); i += 2 {
			k, _ := r.Ctx[i].(string)
			switch k {
			case "send-block-hash":
				if hv, ok := r.Ctx[i+1].(types.Hash); ok {
					h, found = hv, true
				}
			case "returned-error":
				if r.Ctx[i+1] != nil {
					if e, ok := r.Ctx[i+1].(error); ok && e != nil {
						errText = e.Error()
					} else if !ok {
						errText = fmt.Sprint(r.Ctx[i+1])
					}
				}
			}
		}
		if found {
			rl.mu.Lock()
			rl.m[h] = errText
			rl.mu.Unlock()
		}
		return nil
	}))
	return rl
}

func c17UninstallPillarLog() { common.PillarLogger.SetHandler(log15.DiscardHandler()) }

func (rl *c17RecvLog) get(h types.Hash) (string, bool) {
	rl.mu.Lock()
	defer rl.mu.Unlock()
	s, ok := rl.m[h]
	return s, ok
}

// ---------------------------------------------------------------------------
// environment of one in-process case

type c17StoredSpork struct {
	Id        types.Hash
	Name      string
	Desc      string
	Activated bool
	E         uint64
	Raw       string
}

type c17Create struct {
	name, desc string
	by         string // designated | community | other
	raw        bool   // hand-made call data: stored metadata not compared
	sender     string
}

type c17Act struct {
	hash types.Hash
	by   string
}

type c17Env struct {
	c      *fw.C
	caseID string
	r      *rand.Rand
	P, F   *simnet.Node
	recv   *c17RecvLog
	saved  *c17Globals

	// contract receives seen at P's client boundary, by send hash
	recvBlocks map[types.Hash]*nom.AccountBlock

	// model of the spork contract
	creates     map[types.Hash]*c17Create // accepted create sends by hash (= spork id)
	acts        map[types.Hash][]*c17Act  // accepted activate sends by spork id
	seen        map[types.Hash]*c17StoredSpork
	firstActive map[types.Hash]*c17StoredSpork
	dead        bool
	reported    map[string]int
}

// viol reports a violation once per signature and case; repeats are only counted.
func (e *c17Env) viol(sig string, detail interface{}) {
	if e.reported == nil {
		e.reported = map[string]int{}
	}
	e.reported[sig]++
	if e.reported[sig] > 1 {
		e.c.Count("repeated_violations_not_listed", 1)
		return
	}
	e.c.Violation(sig, detail)
}

func c17NewEnv(c *fw.C, caseID string, withFollower bool) *c17Env {
	e := &c17Env{c: c, caseID: caseID, r: c.Rand(caseID),
		recvBlocks:  map[types.Hash]*nom.AccountBlock{},
		creates:     map[types.Hash]*c17Create{},
		acts:        map[types.Hash][]*c17Act{},
		seen:        map[types.Hash]*c17StoredSpork{},
		firstActive: map[types.Hash]*c17StoredSpork{},
	}
	e.saved = c17SaveGlobals()
	e.recv = c17InstallPillarLog()
	constants.InitialBridgeAdministrator = g.User5.Address
	e.P = simnet.Open("P", c.ScratchDir("c17-P"), simnet.MockGenesis(), g.PillarKeys)
	e.P.OnBlock = func(tx *nom.AccountBlock, _ db.Patch, err error) {
		if err == nil && tx != nil && tx.BlockType == nom.BlockTypeContractReceive {
			e.recvBlocks[tx.FromBlockHash] = tx
		}
	}
	if withFollower {
		e.F = simnet.Open("F", c.ScratchDir("c17-F"), simnet.MockGenesis(), nil)
	}
	return e
}

func (e *c17Env) close() {
	if e.P != nil {
		e.P.Destroy()
	}
	if e.F != nil {
		e.F.Destroy()
	}
	c17UninstallPillarLog()
	e.saved.restore()
}

func (e *c17Env) height() uint64 { return e.P.Height() }

func (e *c17Env) ident(n *simnet.Node, h uint64) types.HashHeight {
	m, err := n.Chain.GetFrontierMomentumStore().GetMomentumByHeight(h)
	common.DealWithErr(err)
	if m == nil {
		panic(fmt.Sprintf("c17: no momentum at height %d", h))
	}
	return m.Identifier()
}

func (e *c17Env) confHeight(h types.Hash) uint64 {
	c, err := e.P.Chain.GetFrontierMomentumStore().GetBlockConfirmationHeight(h)
	if err != nil {
		return 0
	}
	return c
}

// produce makes P produce one momentum and runs the storage monitor.
func (e *c17Env) produce() bool {
	m, err := e.P.Produce(0)
	if err != nil || m == nil {
		e.viol("producer-stuck", map[string]interface{}{"height": e.height() + 1, "error": fmt.Sprint(err)})
		e.dead = true
		return false
	}
	e.scan()
	return true
}

func (e *c17Env) produceN(n int) bool {
	for i := 0; i < n; i++ {
		if !e.produce() {
			return false
		}
	}
	return true
}

// readSporks decodes the spork contract storage of a node's frontier with an own iterator.
func c17ReadSporks(n *simnet.Node) (map[types.Hash]*c17StoredSpork, error) {
	st := n.Chain.GetFrontierMomentumStore().GetAccountStore(types.SporkContract).Storage()
	it := st.NewIterator([]byte{1})
	defer it.Release()
	out := map[types.Hash]*c17StoredSpork{}
	for it.Next() {
		v := it.Value()
		if v == nil {
			continue
		}
		sp := new(definition.Spork)
		if err := definition.ABISpork.UnpackVariable(sp, "sporkInfo", v); err != nil {
			return out, fmt.Errorf("undecodable spork entry key=%x: %v", it.Key(), err)
		}
		key := it.Key()
		if len(key) != 1+types.HashSize || !bytes.Equal(key[1:], sp.Id.Bytes()) {
			return out, fmt.Errorf("spork entry key %x does not match id %v", key, sp.Id)
		}
		out[sp.Id] = &c17StoredSpork{Id: sp.Id, Name: sp.Name, Desc: sp.Description, Activated: sp.Activated, E: sp.EnforcementHeight,
			Raw: fmt.Sprintf("%x", v)}
	}
	return out, it.Error()
}

// scan is the model-based monitor of the spork contract storage (clause 2 of the statement).
func (e *c17Env) scan() {
	cur, err := c17ReadSporks(e.P)
	e.c.Eval(1)
	if err != nil {
		e.viol("spork-storage-undecodable", map[string]interface{}{"height": e.height(), "error": err.Error()})
		return
	}
	for id, old := range e.seen {
		if _, ok := cur[id]; !ok {
			e.viol("spork-disappeared", map[string]interface{}{"height": e.height(), "spork": old})
		}
	}
	for id, sp := range cur {
		cr := e.creates[id]
		_, known := e.seen[id]
		switch {
		case cr == nil:
			e.viol("spork-created-without-designated-key", map[string]interface{}{"height": e.height(), "spork": sp, "sender": "unknown send block"})
		case known:
		case !e.legit(cr.by, id):
			e.viol("spork-created-without-designated-key", map[string]interface{}{"height": e.height(), "spork": sp, "sender": cr.sender,
				"sender_class": cr.by, "create_confirmed_at": e.confHeight(id), "community_window": e.communityWindow()})
		default:
			e.c.Distinct("auth|create-effective|" + cr.by)
			if !cr.raw && (sp.Name != cr.name || sp.Desc != cr.desc) {
				e.viol("spork-stored-metadata-differs-from-request", map[string]interface{}{"height": e.height(), "spork": sp,
					"sent_name": fmt.Sprintf("%q", cr.name), "sent_description_len": len(cr.desc)})
			}
		}
		if old, known := e.seen[id]; known && old.Activated && !sp.Activated {
			e.viol("spork-deactivated", map[string]interface{}{"height": e.height(), "before": old, "after": sp})
		}
		if sp.Activated {
			if first, ok := e.firstActive[id]; ok {
				if first.Raw != sp.Raw {
					e.viol("spork-storage-changed-after-activation", map[string]interface{}{"height": e.height(), "first": first, "now": sp, "activation_sends": e.actSummary(id)})
				}
			} else {
				e.firstActive[id] = sp
				// which legitimate activation send was confirmed first?
				var minC uint64
				by := ""
				for _, a := range e.acts[id] {
					if c := e.confHeight(a.hash); c != 0 && e.legit(a.by, a.hash) && (minC == 0 || c < minC) {
						minC, by = c, a.by
					}
				}
				if minC == 0 {
					e.viol("spork-activated-without-designated-key", map[string]interface{}{"height": e.height(), "spork": sp,
						"activation_sends": e.actSummary(id), "community_window": e.communityWindow()})
				} else {
					e.c.Distinct("auth|activate-effective|" + by)
					e.c.SetAdd("enforcement_minus_activation_confirmation", strconv.FormatInt(int64(sp.E)-int64(minC), 10))
					if sp.E < minC+constants.SporkMinHeightDelay {
						e.viol("enforcement-before-min-delay", map[string]interface{}{"spork": sp,
							"activation_send_confirmed_at": minC, "min_delay": constants.SporkMinHeightDelay, "seen_at_height": e.height()})
					}
					if sp.E <= e.height() {
						e.viol("enforcement-not-in-the-future-when-activated", map[string]interface{}{"spork": sp, "seen_at_height": e.height()})
					}
				}
			}
		}
		e.seen[id] = sp
	}
}

// keyClass tells how the model treats a sender of spork-contract calls.
func c17KeyClass(kp *wallet.KeyPair) string {
	switch kp.Address {
	case g.Spork.Address:
		return "designated"
	case types.CommunitySporkAddress:
		return "community"
	}
	return "other"
}

func (e *c17Env) communityWindow() []uint64 {
	return []uint64{definition.CommunitySporkAddressStartHeight, definition.CommunitySporkAddressEndHeight}
}

// legit: may a send of this sender class, confirmed where it was confirmed, act on the spork contract?
// The community key counts as designated inside its height window [start, end) of CONFIRMATION heights — whatever
// momentum the send itself chose to acknowledge.
func (e *c17Env) legit(by string, send types.Hash) bool {
	switch by {
	case "designated":
		return true
	case "community":
		c := e.confHeight(send)
		// the contract executes the call against the momentum that confirmed the send: [start, end)
		return c >= definition.CommunitySporkAddressStartHeight && c < definition.CommunitySporkAddressEndHeight
	}
	return false
}

func (e *c17Env) actSummary(id types.Hash) []string {
	var l []string
	for _, a := range e.acts[id] {
		l = append(l, fmt.Sprintf("%s confirmed at %d", a.by, e.confHeight(a.hash)))
	}
	return l
}

// sporkCall submits a block to the spork contract and books accepted ones in the model.
func (e *c17Env) sporkCall(kp *wallet.KeyPair, data []byte, amount *big.Int) (*nom.AccountBlock, error) {
	tpl := &nom.AccountBlock{BlockType: nom.BlockTypeUserSend, Address: kp.Address, ToAddress: types.SporkContract,
		TokenStandard: types.ZnnTokenStandard, Amount: amount, Data: data}
	// the community key tries what a sender controls: the momentum its block acknowledges (older ones are admissible as
	// long as they are not older than its previous block's) — inside its window while the chain is outside, and vice versa
	if kp.Address == types.CommunitySporkAddress && e.r.Intn(2) == 0 {
		w := e.communityWindow()
		h := e.P.Height()
		var want uint64
		switch {
		case h >= w[1] && w[1] > w[0]:
			want = w[0] + uint64(e.r.Int63n(int64(w[1]-w[0])))
		case h >= w[0] && w[0] > 2:
			want = w[0] - 1 - uint64(e.r.Intn(2))
		}
		if want > 0 && want < h {
			if m, _ := e.P.Chain.GetFrontierMomentumStore().GetMomentumByHeight(want); m != nil {
				tpl.MomentumAcknowledged = m.Identifier()
				e.c.SetAdd("community_key_explicit_acknowledgements", fmt.Sprintf("chain=%s ack=%s", c17WindowPos(h, w), c17WindowPos(want, w)))
			}
		}
	}
	return e.P.Submit(tpl, kp)
}

func c17WindowPos(h uint64, w []uint64) string {
	switch {
	case h < w[0]:
		return "before-window"
	case h < w[1]:
		return "inside-window"
	}
	return "after-window"
}

func (e *c17Env) createSpork(kp *wallet.KeyPair, name, desc string) (types.Hash, error) {
	blk, err := e.sporkCall(kp, definition.ABISpork.PackMethodPanic(definition.SporkCreateMethodName, name, desc), big.NewInt(0))
	if err != nil {
		return types.ZeroHash, err
	}
	e.creates[blk.Hash] = &c17Create{name: name, desc: desc, by: c17KeyClass(kp), sender: kp.Address.String()}
	types.ImplementedSporksMap[blk.Hash] = true
	return blk.Hash, nil
}

func (e *c17Env) activateSpork(kp *wallet.KeyPair, id types.Hash) (types.Hash, error) {
	blk, err := e.sporkCall(kp, definition.ABISpork.PackMethodPanic(definition.SporkActivateMethodName, id), big.NewInt(0))
	if err != nil {
		return types.ZeroHash, err
	}
	e.acts[id] = append(e.acts[id], &c17Act{hash: blk.Hash, by: c17KeyClass(kp)})
	return blk.Hash, nil
}

// syncFollower feeds F with P's momentums in batches cut at the given heights and compares the ledgers.
func (e *c17Env) syncFollower(cuts map[uint64]bool, label string) bool {
	top := e.P.Height()
	for e.F.Height() < top {
		from := e.F.Height() + 1
		to := from
		for to < top && !cuts[to+1] && to-from < 40 {
			to++
		}
		idx, err := e.F.InsertChain(simnet.CloneBatch(e.P.Range(from, to)))
		e.c.Eval(1)
		if err != nil {
			e.viol("follower-disagrees insert-chain", map[string]interface{}{"when": label, "batch_from": from, "batch_to": to,
				"failed_index": idx, "error": err.Error(), "sporks": e.seen})
			return false
		}
	}
	pf, ff := e.P.Frontier(), e.F.Frontier()
	if pf.Hash != ff.Hash || pf.Height != ff.Height {
		e.viol("follower-disagrees frontier", map[string]interface{}{"when": label, "producer": fmt.Sprint(pf.Identifier()), "follower": fmt.Sprint(ff.Identifier())})
		return false
	}
	if diffs := simnet.DiffDumps(e.P.DumpFrontier(), e.F.DumpFrontier(), 5); len(diffs) > 0 {
		e.viol("follower-disagrees state", map[string]interface{}{"when": label, "height": pf.Height, "diffs": diffs})
		return false
	}
	e.c.Count("follower_syncs_equal", 1)
	return true
}

func c17HashOf(s string) types.Hash { return types.NewHash([]byte(s)) }

// ===== probes =====
// c17Probe is one call to a spork-gated method (kind "call") or a spork-gated
// price of an always-present method (kind "plasma").
type c17Probe struct {
	kind     string // call | plasma
	spork    string // guarding spork
	contract string
	method   string
	sender   string // user | spork | admin
	to       types.Address
	zts      types.ZenonTokenStandard
	amount   *big.Int
	data     []byte
	// succeed: the call is built so that the receive succeeds when the feature is on
	succeed     bool
	descendants int // expected descendant blocks of the receive when it succeeds (-1: not judged)
	// plasma probes: base plasma below / from the enforcement height
	plasmaOld, plasmaNew uint64
}

func (p *c17Probe) name() string { return p.contract + "." + p.method }

const c17EvmAddr = "0x00000000000000000000000000000000000000c1"

func c17BuildProbes() []*c17Probe {
	var l []*c17Probe
	zero := big.NewInt(0)
	one := big.NewInt(1)
	call := func(spork, contract string, to types.Address, a abi.ABIContract, method string, args ...interface{}) *c17Probe {
		p := &c17Probe{kind: "call", spork: spork, contract: contract, method: method, sender: "user", to: to,
			zts: types.ZnnTokenStandard, amount: zero, data: a.PackMethodPanic(method, args...), descendants: -1}
		l = append(l, p)
		return p
	}
	h := c17HashOf("c17-unknown-id")
	someAddr := g.User7.Address
	guardians := []types.Address{g.User6.Address, g.User7.Address, g.User8.Address, g.User9.Address, g.User10.Address, g.User1.Address}

	// ---- accelerator spork
	acc := types.AcceleratorContract
	p := call("accelerator", "accelerator", acc, definition.ABIAccelerator, definition.CreateProjectMethodName,
		"c17 project", "boundary probe", "c17.test", big.NewInt(100), big.NewInt(1000))
	p.amount, p.succeed, p.descendants = constants.ProjectCreationAmount, true, 0
	call("accelerator", "accelerator", acc, definition.ABIAccelerator, definition.AddPhaseMethodName,
		h, "phase", "boundary probe", "c17.test", one, one)
	call("accelerator", "accelerator", acc, definition.ABIAccelerator, definition.UpdatePhaseMethodName,
		h, "phase", "boundary probe", "c17.test", one, one)
	call("accelerator", "accelerator", acc, definition.ABIAccelerator, definition.VoteByNameMethodName, h, g.Pillar1Name, uint8(0))
	call("accelerator", "accelerator", acc, definition.ABIAccelerator, definition.VoteByProdAddressMethodName, h, uint8(0))
	call("accelerator", "accelerator", acc, definition.ABIAccelerator, definition.UpdateMethodName)
	p = call("accelerator", "liquidity", types.LiquidityContract, definition.ABILiquidity, definition.FundMethodName, one, one)
	p.sender, p.succeed, p.descendants = "spork", true, 2
	p.zts = types.ZeroTokenStandard
	p = call("accelerator", "liquidity", types.LiquidityContract, definition.ABILiquidity, definition.BurnZnnMethodName, one)
	p.sender, p.succeed, p.descendants = "spork", true, 1
	p.zts = types.ZeroTokenStandard
	for _, c := range []struct {
		name string
		addr types.Address
	}{{"pillar", types.PillarContract}, {"sentinel", types.SentinelContract}, {"stake", types.StakeContract}} {
		l = append(l, &c17Probe{kind: "plasma", spork: "accelerator", contract: c.name, method: "CollectReward.plasma", sender: "user",
			to: c.addr, zts: types.ZnnTokenStandard, amount: zero, data: definition.ABICommon.PackMethodPanic(definition.CollectRewardMethodName),
			plasmaOld: constants.AlphanetPlasmaTable.EmbeddedSimple + constants.AlphanetPlasmaTable.EmbeddedWWithdraw,
			plasmaNew: constants.AlphanetPlasmaTable.EmbeddedSimple, descendants: -1})
	}

	// ---- bridge and liquidity spork
	br := types.BridgeContract
	B := definition.ABIBridge
	p = call("bridge", "bridge", br, B, definition.WrapTokenMethodName, uint32(1), uint32(1), c17EvmAddr)
	p.amount = one
	call("bridge", "bridge", br, B, definition.UpdateWrapRequestMethodName, h, "c2ln")
	call("bridge", "bridge", br, B, definition.SetNetworkMethodName, uint32(1), uint32(1), "c17net", c17EvmAddr, "{}")
	call("bridge", "bridge", br, B, definition.RemoveNetworkMethodName, uint32(1), uint32(1))
	call("bridge", "bridge", br, B, definition.SetTokenPairMethod, uint32(1), uint32(1), types.ZnnTokenStandard, c17EvmAddr,
		true, true, false, one, uint32(0), uint32(1), "{}")
	call("bridge", "bridge", br, B, definition.SetNetworkMetadataMethodName, uint32(1), uint32(1), "{}")
	call("bridge", "bridge", br, B, definition.RemoveTokenPairMethodName, uint32(1), uint32(1), types.ZnnTokenStandard, c17EvmAddr)
	call("bridge", "bridge", br, B, definition.HaltMethodName, "c2ln")
	call("bridge", "bridge", br, B, definition.UnhaltMethodName)
	call("bridge", "bridge", br, B, definition.EmergencyMethodName)
	call("bridge", "bridge", br, B, definition.ChangeTssECDSAPubKeyMethodName, base64.StdEncoding.EncodeToString(make([]byte, constants.CompressedECDSAPubKeyLength)), "a", "b")
	call("bridge", "bridge", br, B, definition.ChangeAdministratorMethodName, someAddr)
	call("bridge", "bridge", br, B, definition.ProposeAdministratorMethodName, someAddr)
	call("bridge", "bridge", br, B, definition.SetAllowKeygenMethodName, true)
	call("bridge", "bridge", br, B, definition.SetBridgeMetadataMethodName, "{}")
	call("bridge", "bridge", br, B, definition.UnwrapTokenMethodName, uint32(1), uint32(1), h, uint32(0), someAddr, c17EvmAddr, one, "c2ln")
	call("bridge", "bridge", br, B, definition.RevokeUnwrapRequestMethodName, h, uint32(0))
	call("bridge", "bridge", br, B, definition.RedeemUnwrapMethodName, h, uint32(0))
	call("bridge", "bridge", br, B, definition.NominateGuardiansMethodName, guardians)
	p = call("bridge", "bridge", br, B, definition.SetOrchestratorInfoMethodName, uint64(6), uint32(3), uint32(15), uint32(10))
	p.sender, p.succeed, p.descendants = "admin", true, 0

	lq := types.LiquidityContract
	L := definition.ABILiquidity
	call("bridge", "liquidity", lq, L, definition.SetTokenTupleMethodName, []string{}, []uint32{}, []uint32{}, []*big.Int{})
	p = call("bridge", "liquidity", lq, L, definition.LiquidityStakeMethodName, int64(constants.StakeTimeMinSec))
	p.amount = one
	call("bridge", "liquidity", lq, L, definition.CancelLiquidityStakeMethodName, h)
	call("bridge", "liquidity", lq, L, definition.UnlockLiquidityStakeEntriesMethodName)
	call("bridge", "liquidity", lq, L, definition.CollectRewardMethodName)
	p = call("bridge", "liquidity", lq, L, definition.SetIsHaltedMethodName, false)
	p.sender, p.succeed, p.descendants = "admin", true, 0
	call("bridge", "liquidity", lq, L, definition.SetAdditionalRewardMethodName, one, one)
	call("bridge", "liquidity", lq, L, definition.ChangeAdministratorMethodName, someAddr)
	call("bridge", "liquidity", lq, L, definition.ProposeAdministratorMethodName, someAddr)
	call("bridge", "liquidity", lq, L, definition.NominateGuardiansMethodName, guardians)
	call("bridge", "liquidity", lq, L, definition.EmergencyMethodName)

	// ---- htlc spork
	ht := types.HtlcContract
	H := definition.ABIHtlc
	p = call("htlc", "htlc", ht, H, definition.CreateHtlcMethodName, g.User7.Address, int64(4000000000), uint8(definition.HashTypeSHA3), uint8(32), h.Bytes())
	p.amount, p.succeed, p.descendants = one, true, 0
	call("htlc", "htlc", ht, H, definition.ReclaimHtlcMethodName, h)
	call("htlc", "htlc", ht, H, definition.UnlockHtlcMethodName, h, []byte("c17-preimage"))
	p = call("htlc", "htlc", ht, H, definition.DenyHtlcProxyUnlockMethodName)
	p.succeed, p.descendants = true, 0
	p = call("htlc", "htlc", ht, H, definition.AllowHtlcProxyUnlockMethodName)
	p.succeed, p.descendants = true, 0
	return l
}

// ===== table =====
type c17Pending struct {
	pr       *c17Probe
	hash     types.Hash
	ack      uint64
	pass     string
	expected bool
	sentAt   uint64
}

type c17Table struct {
	*c17Env
	probes  []*c17Probe
	ids     map[string]types.Hash // spork name -> id (once created)
	pending []*c17Pending
	// outcome of P's retro pass by (probe index, ack) for the follower comparison
	retro map[string]string
	order string

	weakReported   bool
	firstGatedConf uint64 // lowest confirmation height of an inserted gated call that was expected to be available
}

// enforcement returns the enforcement height of a spork as stored on P (ok=false: not activated yet).
func (t *c17Table) enforcement(spork string) (uint64, bool) {
	id, ok := t.ids[spork]
	if !ok {
		return 0, false
	}
	sp := t.seen[id]
	if sp == nil || !sp.Activated {
		return 0, false
	}
	return sp.E, true
}

func (t *c17Table) activeOthers(spork string, ack uint64) []string {
	var l []string
	for _, s := range c17Sporks {
		if s.name == spork {
			continue
		}
		if E, ok := t.enforcement(s.name); ok && ack >= E {
			l = append(l, s.name)
		}
	}
	sort.Strings(l)
	return l
}

func c17IsGateErr(err error) bool {
	return err == constants.ErrContractMethodNotFound || err == constants.ErrContractDoesntExist
}

func (t *c17Table) keyFor(pr *c17Probe, user *wallet.KeyPair) *wallet.KeyPair {
	switch pr.sender {
	case "spork":
		return g.Spork
	case "admin":
		return g.User5
	}
	return user
}

func c17LastAck(n *simnet.Node, addr types.Address) uint64 {
	b, err := n.Chain.GetFrontierAccountStore(addr).Frontier()
	if err != nil || b == nil {
		return 0
	}
	return b.MomentumAcknowledged.Height
}

// evalProbe submits (insert) or only generates one probe on node n with the given acknowledged height and judges it.
// Returns the observed outcome class.
func (t *c17Table) evalProbe(n *simnet.Node, idx int, user *wallet.KeyPair, ack uint64, insert bool, pass string) string {
	pr := t.probes[idx]
	kp := t.keyFor(pr, user)
	if c17LastAck(n, kp.Address) > ack {
		t.c.Count("skipped_older_than_predecessor", 1)
		return "skipped"
	}
	E, activated := t.enforcement(pr.spork)
	expected := activated && ack >= E
	tpl := &nom.AccountBlock{BlockType: nom.BlockTypeUserSend, Address: kp.Address, ToAddress: pr.to,
		TokenStandard: pr.zts, Amount: new(big.Int).Set(pr.amount), Data: append([]byte{}, pr.data...),
		MomentumAcknowledged: t.ident(n, ack)}
	var blk *nom.AccountBlock
	var err error
	if insert && pr.kind == "call" && n == t.P {
		blk, err = n.Submit(tpl, kp)
	} else {
		insert = false
		var tx *nom.AccountBlockTransaction
		tx, err = n.Generate(tpl, kp)
		if tx != nil {
			blk = tx.Block
		}
	}
	t.c.Eval(1)
	off := "noE"
	near := false
	if activated {
		d := int64(ack) - int64(E)
		near = d >= -3 && d <= 3
		off = fmt.Sprintf("%+d", d)
		if d > 3 {
			off = ">+3"
		} else if d < -3 {
			off = "<-3"
		}
	}
	witness := func(extra map[string]interface{}) map[string]interface{} {
		w := map[string]interface{}{"node": n.Name, "pass": pass, "order": t.order, "spork": pr.spork, "method": pr.name(), "sender": pr.sender,
			"acknowledged_height": ack, "frontier_height": n.Height(), "enforcement_height": E, "activated": activated,
			"expected_available": expected, "inserted": insert, "error": fmt.Sprint(err), "sporks": t.sporkSummary()}
		for k, v := range extra {
			w[k] = v
		}
		return w
	}
	outcome := ""
	switch {
	case err != nil && c17IsGateErr(err):
		outcome = "closed"
	case err != nil:
		outcome = "other"
	default:
		outcome = "open"
	}
	if outcome == "other" {
		t.c.Count("weak_probe_other_error", 1)
		t.c.SetAdd("other_errors", pr.name()+": "+err.Error())
		if !t.weakReported {
			t.weakReported = true
			t.c.Inconclusive(fmt.Sprintf("probe %s ack=%d refused for a reason unrelated to gating: %v", pr.name(), ack, err))
		}
		return outcome
	}
	if pr.kind == "plasma" {
		if outcome == "closed" {
			t.viol("ungated-method-refused "+pr.name(), witness(nil))
			return outcome
		}
		switch blk.BasePlasma {
		case pr.plasmaNew:
			outcome = "new"
		case pr.plasmaOld:
			outcome = "old"
		default:
			outcome = "unknown-price"
		}
		want := "old"
		if expected {
			want = "new"
		}
		if outcome != want {
			sig := ""
			others := t.activeOthers(pr.spork, ack)
			switch {
			case outcome == "unknown-price":
				sig = "gated-price-unknown " + pr.spork + " " + pr.name()
			case !expected && len(others) > 0:
				sig = "gated-call-accepted-below-enforcement-via-other-spork gated=" + pr.spork + " active=" + strings.Join(others, "+")
			case !expected:
				sig = "gated-call-accepted-below-enforcement " + pr.spork + " " + pr.name()
			default:
				sig = "gated-call-refused-at-or-above-enforcement " + pr.spork + " " + pr.name()
			}
			t.viol(sig, witness(map[string]interface{}{"base_plasma": blk.BasePlasma, "old_price": pr.plasmaOld, "new_price": pr.plasmaNew}))
		}
	} else {
		if outcome == "open" && !expected {
			others := t.activeOthers(pr.spork, ack)
			if len(others) > 0 {
				t.viol("gated-call-accepted-below-enforcement-via-other-spork gated="+pr.spork+" active="+strings.Join(others, "+"), witness(nil))
			} else {
				t.viol("gated-call-accepted-below-enforcement "+pr.spork+" "+pr.name(), witness(nil))
			}
		}
		if outcome == "closed" && expected {
			t.viol("gated-call-refused-at-or-above-enforcement "+pr.spork+" "+pr.name(), witness(nil))
		}
		if outcome == "open" && insert {
			t.pending = append(t.pending, &c17Pending{pr: pr, hash: blk.Hash, ack: ack, pass: pass, expected: expected, sentAt: n.Height()})
		}
	}
	if near {
		t.c.Distinct(fmt.Sprintf("table|%s|%s|%s|off=%s|%s", pass, pr.spork, pr.name(), off, outcome))
	}
	t.c.SetAdd("outcomes", fmt.Sprintf("%s %s off=%s -> %s", pass, pr.spork, off, outcome))
	return outcome
}

func (t *c17Table) sporkSummary() map[string]interface{} {
	m := map[string]interface{}{}
	for _, s := range c17Sporks {
		if E, ok := t.enforcement(s.name); ok {
			m[s.name] = E
		} else if _, created := t.ids[s.name]; created {
			m[s.name] = "created"
		} else {
			m[s.name] = "absent"
		}
	}
	return m
}

// resolve judges the receive side of every inserted, accepted probe whose auto-receive has been generated.
func (t *c17Table) resolve(final bool) {
	var keep []*c17Pending
	for _, pd := range t.pending {
		errText, ok := t.recv.get(pd.hash)
		if !ok {
			if final {
				t.viol("send-receive-disagree "+pd.pr.spork+" "+pd.pr.name()+" receive=missing", map[string]interface{}{
					"pass": pd.pass, "acknowledged_height": pd.ack, "sent_at_height": pd.sentAt, "now": t.height(), "send": pd.hash.String(), "sporks": t.sporkSummary()})
			} else {
				keep = append(keep, pd)
			}
			continue
		}
		t.c.Eval(1)
		if ch := t.confHeight(pd.hash); pd.expected && ch != 0 && (t.firstGatedConf == 0 || ch < t.firstGatedConf) {
			t.firstGatedConf = ch
		}
		t.c.SetAdd("receive_results", pd.pr.name()+": "+errText)
		w := map[string]interface{}{"pass": pd.pass, "order": t.order, "acknowledged_height": pd.ack, "sent_at_height": pd.sentAt,
			"confirmed_at_height": t.confHeight(pd.hash), "returned_error": errText, "send_expected_available": pd.expected, "sporks": t.sporkSummary()}
		switch {
		case errText == constants.ErrContractMethodNotFound.Error() || errText == constants.ErrContractDoesntExist.Error():
			t.viol("send-receive-disagree "+pd.pr.spork+" "+pd.pr.name()+" receive=method-not-found", w)
		case !pd.expected:
			// the send itself was already reported
		case pd.pr.succeed && errText != "":
			t.viol("send-receive-disagree "+pd.pr.spork+" "+pd.pr.name()+" receive=failed", w)
		case pd.pr.succeed && pd.pr.descendants >= 0:
			rb := t.recvBlocks[pd.hash]
			if rb == nil {
				t.viol("send-receive-disagree "+pd.pr.spork+" "+pd.pr.name()+" receive=not-inserted", w)
			} else if len(rb.DescendantBlocks) != pd.pr.descendants {
				w["descendants"] = len(rb.DescendantBlocks)
				w["expected_descendants"] = pd.pr.descendants
				t.viol("send-receive-disagree "+pd.pr.spork+" "+pd.pr.name()+" receive=effect-differs", w)
			} else {
				t.c.Distinct(fmt.Sprintf("table|receive|%s|%s|%s|ok", pd.pass, pd.pr.spork, pd.pr.name()))
			}
		}
	}
	t.pending = keep
}

func (t *c17Table) produceResolve() bool {
	if !t.produce() {
		return false
	}
	t.resolve(false)
	return true
}

func (t *c17Table) inWindow(h uint64, radius uint64) bool {
	for _, s := range c17Sporks {
		if E, ok := t.enforcement(s.name); ok && h+radius >= E && h <= E+radius {
			return true
		}
	}
	return false
}

func c17RunTable(c *fw.C, caseID string) {
	parts := strings.Split(caseID, ":")
	if len(parts) != 3 || len(parts[1]) != 3 {
		c.Inconclusive("bad table case id " + caseID)
		return
	}
	t := &c17Table{c17Env: c17NewEnv(c, caseID, true), probes: c17BuildProbes(), ids: map[string]types.Hash{}, retro: map[string]string{}, order: parts[1]}
	defer t.close()
	r := t.r
	if len(t.saved.impl) != len(c17Sporks) {
		c.Note("implemented_sporks_in_repository", len(t.saved.impl))
		t.viol("harness-incomplete implemented-sporks", fmt.Sprintf("repository defines %d implemented sporks, the monitor knows %d", len(t.saved.impl), len(c17Sporks)))
	}

	// give the liquidity contract a balance so that Fund / BurnZnn can pay out
	for _, zts := range []types.ZenonTokenStandard{types.ZnnTokenStandard, types.QsrTokenStandard} {
		if _, err := t.P.Send(g.User1, types.LiquidityContract, zts, big.NewInt(50*g.Zexp), definition.ABILiquidity.PackMethodPanic(definition.DonateMethodName)); err != nil {
			c.Inconclusive("setup donate failed: " + err.Error())
			return
		}
	}

	// schedule
	gaps := []int{0, 0, 1, 2, 3, 5, 8, 12}
	createAt := make([]uint64, 3)
	actAt := make([]uint64, 3)
	at := uint64(3 + r.Intn(3))
	for i := 0; i < 3; i++ {
		createAt[i] = at
		actAt[i] = at + uint64(r.Intn(4))
		at = actAt[i] + uint64(gaps[r.Intn(len(gaps))])
	}
	lag := uint64(1 + r.Intn(3))
	restartOff := int64(-100)
	if r.Intn(3) == 0 {
		restartOff = int64(r.Intn(4)) - 2
	}
	restartSpork := c17Sporks[r.Intn(3)].name
	midSync := r.Intn(2) == 0
	midSyncOff := int64(r.Intn(5)) - 2
	midSyncSpork := c17Sporks[r.Intn(3)].name
	insertShare := 10 + r.Intn(25) // percent of non-"succeed" probes that are really inserted in the live pass
	c.Sample(map[string]interface{}{"case": caseID, "create_at": createAt, "activate_at": actAt, "lag": lag})

	if !t.produceN(2) {
		return
	}
	restarted, synced := false, false
	for !t.dead {
		H := t.height()
		if E, ok := t.enforcement(restartSpork); ok && !restarted && int64(H) == int64(E)+restartOff {
			t.P.Restart()
			restarted = true
			c.Count("producer_restarts_near_boundary", 1)
		}
		for i := 0; i < 3; i++ {
			sp := c17SporkByLetter(t.order[i])
			if createAt[i] == H {
				id, err := t.createSpork(g.Spork, "c17-"+sp.name, "spork "+sp.name+" of "+caseID)
				if err != nil {
					t.viol("designated-create-refused", map[string]interface{}{"height": H, "error": err.Error()})
					return
				}
				t.ids[sp.name] = id
				sp.impl.SporkId = id
				types.ImplementedSporksMap[id] = true
			}
			if actAt[i] == H {
				if _, err := t.activateSpork(g.Spork, t.ids[sp.name]); err != nil {
					t.viol("designated-activate-refused", map[string]interface{}{"height": H, "error": err.Error()})
					return
				}
			}
		}
		if t.inWindow(H, 2) {
			inserted := 0
			for idx, pr := range t.probes {
				ins := pr.succeed || r.Intn(100) < insertShare
				if ins && inserted >= 24 && !pr.succeed {
					ins = false
				}
				if t.evalProbe(t.P, idx, g.User1, H, ins, "live") == "open" && ins {
					inserted++
				}
			}
			if H > lag+1 {
				for idx, pr := range t.probes {
					if pr.sender != "user" {
						continue
					}
					ins := pr.succeed && inserted < 40
					if t.evalProbe(t.P, idx, g.User3, H-lag, ins, "lag") == "open" && ins {
						inserted++
					}
				}
			}
		}
		if E, ok := t.enforcement(midSyncSpork); ok && midSync && !synced && int64(H) == int64(E)+midSyncOff {
			synced = true
			if !t.syncFollower(nil, "mid-run") {
				return
			}
		}
		done := true
		maxE := uint64(0)
		for _, s := range c17Sporks {
			E, ok := t.enforcement(s.name)
			if !ok {
				done = false
			} else if E > maxE {
				maxE = E
			}
		}
		if done && H >= maxE+3 {
			break
		}
		if H > 400 {
			c.Inconclusive("schedule did not finish by height 400")
			return
		}
		if !t.produceResolve() {
			return
		}
	}
	if t.dead {
		return
	}
	if !t.produceResolve() || !t.produceResolve() {
		return
	}

	// retro pass: old acknowledged momentums, high frontier
	top := t.height()
	ackSet := map[uint64]bool{}
	var Es []uint64
	for _, s := range c17Sporks {
		E, _ := t.enforcement(s.name)
		Es = append(Es, E)
		for h := int64(E) - 3; h <= int64(E)+3; h++ {
			if h >= 2 && uint64(h) <= top {
				ackSet[uint64(h)] = true
			}
		}
	}
	var acks []uint64
	for h := range ackSet {
		acks = append(acks, h)
	}
	sort.Slice(acks, func(i, j int) bool { return acks[i] < acks[j] })
	insertedSince := 0
	for _, ack := range acks {
		for idx, pr := range t.probes {
			ins := pr.succeed
			out := t.evalProbe(t.P, idx, g.User2, ack, ins, "retro")
			if pr.sender == "user" {
				t.retro[fmt.Sprintf("%d@%d", idx, ack)] = out
			}
			if out == "open" && ins {
				insertedSince++
			}
			if insertedSince >= 30 {
				insertedSince = 0
				if !t.produceResolve() {
					return
				}
			}
		}
	}
	if !t.produceN(3) {
		return
	}
	t.resolve(true)

	// follower: batches never start exactly at an enforcement height, so every E is reached inside a batch
	cuts := map[uint64]bool{}
	for h := t.F.Height() + 2; h <= t.height(); h++ {
		if r.Intn(5) == 0 {
			cuts[h] = true
		}
	}
	for _, E := range Es {
		delete(cuts, E)
	}
	if !t.syncFollower(cuts, "final") {
		return
	}
	fs, err := c17ReadSporks(t.F)
	if err != nil || len(fs) != len(t.seen) {
		t.viol("follower-disagrees spork-storage", map[string]interface{}{"error": fmt.Sprint(err), "follower": fs, "producer": t.seen})
	} else {
		for id, sp := range t.seen {
			if f := fs[id]; f == nil || f.Raw != sp.Raw {
				t.viol("follower-disagrees spork-storage", map[string]interface{}{"producer": sp, "follower": f})
			}
		}
	}
	for _, ack := range acks {
		for idx, pr := range t.probes {
			if pr.sender != "user" {
				continue
			}
			out := t.evalProbe(t.F, idx, g.User4, ack, false, "follower")
			if want := t.retro[fmt.Sprintf("%d@%d", idx, ack)]; want != "" && want != "skipped" && out != want {
				t.viol("follower-disagrees gate "+pr.spork+" "+pr.name(), map[string]interface{}{"acknowledged_height": ack,
					"producer": want, "follower": out, "sporks": t.sporkSummary()})
			}
		}
	}
	c.SetAdd("orders_completed", t.order)

	// A node whose rule set does not contain these sporks (other ids configured) must refuse P's chain at the first
	// gated call instead of trusting the producer: gating is evaluated by every node on its own.
	if t.firstGatedConf != 0 {
		for i, s := range c17Sporks {
			s.impl.SporkId = c17HashOf(fmt.Sprintf("c17-not-this-spork-%d", i))
		}
		s2 := simnet.Open("S", c.ScratchDir("c17-S"), simnet.MockGenesis(), nil)
		err := s2.SyncFrom(t.P, 1+r.Intn(12))
		reached := s2.Height()
		s2.Destroy()
		for _, s := range c17Sporks {
			s.impl.SporkId = t.ids[s.name]
		}
		c.Eval(1)
		if err == nil || reached >= t.firstGatedConf {
			t.viol("follower-accepts-gated-call-outside-its-rules", map[string]interface{}{"first_gated_call_confirmed_at": t.firstGatedConf,
				"follower_reached": reached, "producer_height": t.height(), "error": fmt.Sprint(err), "sporks": t.sporkSummary()})
		} else {
			c.Count("foreign_rule_set_followers_refused", 1)
			c.SetAdd("foreign_follower_stop_distance", fmt.Sprintf("%d", int64(t.firstGatedConf)-int64(reached)))
		}
	}
}

// ===== auth =====
type c17HostileMeta struct {
	label, name, desc string
}

func c17HostileMetas() []c17HostileMeta {
	rep := strings.Repeat
	return []c17HostileMeta{
		{"empty", "", ""},
		{"name-4", "abcd", "d"},
		{"name-5", "abcde", "d"},
		{"name-40", rep("n", 40), "d"},
		{"name-41", rep("n", 41), "d"},
		{"desc-400", "desc-400", rep("d", 400)},
		{"desc-401", "desc-401", rep("d", 401)},
		{"desc-empty", "desc-empty", ""},
		{"unicode", "spörk-ünïcödé-名前", "описание ✓"},
		{"unicode-40-runes", rep("é", 40), "d"},
		{"nul", "abc\x00def", "de\x00sc"},
		{"invalid-utf8", "\xff\xfe\xfd\xfc\xfb\xfa", "\xc3\x28"},
		{"quotes", `"};{"a":1,"\n`, "'; DROP TABLE sporks; --"},
		{"newline", "line1\nline2\r\n", "\t\x1b[31m"},
		{"spaces", "       ", " "},
		{"huge-name", rep("H", 3000), "d"},
		{"huge-desc", "huge-desc", rep("D", 12000)},
	}
}

func c17RawCreateDatas(r interface{ Intn(int) int }) map[string][]byte {
	valid := definition.ABISpork.PackMethodPanic(definition.SporkCreateMethodName, "raw-valid", "raw description")
	sel := append([]byte{}, valid[:4]...)
	m := map[string][]byte{
		"selector-only":    sel,
		"truncated":        append([]byte{}, valid[:len(valid)-33]...),
		"trailing-garbage": append(append([]byte{}, valid...), 0xde, 0xad, 0xbe, 0xef),
		"unaligned":        append(append([]byte{}, valid...), 0x01),
	}
	// offset of the first string points far outside the data
	far := append([]byte{}, valid...)
	for i := 4; i < 4+32; i++ {
		far[i] = 0xff
	}
	m["offset-out-of-range"] = far
	// length word of the first string is huge
	long := append([]byte{}, valid...)
	if len(long) >= 4+64+32 {
		for i := 4 + 64; i < 4+64+24; i++ {
			long[i] = 0
		}
		long[4+64+24] = 0x7f
	}
	m["length-huge"] = long
	// both offsets point to the same string
	same := append([]byte{}, valid...)
	copy(same[4+32:4+64], same[4:4+32])
	m["aliased-offsets"] = same
	rnd := append([]byte{}, sel...)
	for i := 0; i < 96+r.Intn(64); i++ {
		rnd = append(rnd, byte(r.Intn(256)))
	}
	m["random-body"] = rnd
	return m
}

func c17RunAuth(c *fw.C, caseID string) {
	e := c17NewEnv(c, caseID, true)
	defer e.close()
	r := e.r

	// the second (community) key: designated only inside [start, end) of chain heights
	community := g.User4
	types.CommunitySporkAddress = community.Address
	cStart := uint64(8 + r.Intn(14))
	cEnd := cStart + uint64(2+r.Intn(10))
	definition.CommunitySporkAddressStartHeight = cStart
	definition.CommunitySporkAddressEndHeight = cEnd
	c.Sample(map[string]interface{}{"case": caseID, "community_window": []uint64{cStart, cEnd}})

	others := []*wallet.KeyPair{g.User1, g.User2, g.User3, g.Pillar1, g.Pillar5}
	metas := c17HostileMetas()
	raws := c17RawCreateDatas(r)
	var rawNames []string
	for k := range raws {
		rawNames = append(rawNames, k)
	}
	sort.Strings(rawNames)

	var created []types.Hash // ids of designated creations (may or may not be in storage)
	pick := func() (types.Hash, bool) {
		if len(created) == 0 {
			return types.ZeroHash, false
		}
		return created[r.Intn(len(created))], true
	}
	pickState := func(activated bool) (types.Hash, bool) {
		var l []types.Hash
		for _, id := range created {
			if sp := e.seen[id]; sp != nil && sp.Activated == activated {
				l = append(l, id)
			}
		}
		if len(l) == 0 {
			return types.ZeroHash, false
		}
		return l[r.Intn(len(l))], true
	}
	sendOutcome := func(kind, class string, err error) {
		out := "accepted-at-send"
		if err != nil {
			out = "refused-at-send"
			c.SetAdd("send_refusals", kind+" "+class+": "+err.Error())
		}
		c.Eval(1)
		c.Distinct("auth|" + kind + "|" + class + "|" + out)
	}

	if !e.produceN(2) {
		return
	}
	steps := 26 + r.Intn(14)
	nameSeq := 0
	for step := 0; step < steps && !e.dead; step++ {
		act := r.Intn(100)
		switch {
		case act < 16: // designated create, valid metadata
			nameSeq++
			name := fmt.Sprintf("c17-auth-%d-%s", nameSeq, strings.Repeat("x", r.Intn(20)))
			id, err := e.createSpork(g.Spork, name, strings.Repeat("y", r.Intn(400)))
			sendOutcome("create", "designated", err)
			if err == nil {
				created = append(created, id)
			}
		case act < 28: // create by a key that is not designated (or the community key, whatever the height)
			kp := others[r.Intn(len(others))]
			if r.Intn(3) == 0 {
				kp = community
			}
			id, err := e.createSpork(kp, "c17-intruder", "not allowed")
			sendOutcome("create", c17KeyClass(kp), err)
			if err == nil {
				created = append(created, id)
			}
		case act < 40: // hostile metadata from the designated key
			m := metas[r.Intn(len(metas))]
			id, err := e.createSpork(g.Spork, m.name, m.desc)
			sendOutcome("create-hostile-"+m.label, "designated", err)
			if err == nil {
				created = append(created, id)
			}
		case act < 48: // hand-made call data from the designated key
			k := rawNames[r.Intn(len(rawNames))]
			blk, err := e.sporkCall(g.Spork, raws[k], big.NewInt(0))
			sendOutcome("create-raw-"+k, "designated", err)
			if err == nil {
				e.creates[blk.Hash] = &c17Create{by: "designated", raw: true, sender: g.Spork.Address.String()}
				types.ImplementedSporksMap[blk.Hash] = true
				created = append(created, blk.Hash)
			}
		case act < 52: // create with an amount attached
			blk, err := e.sporkCall(g.Spork, definition.ABISpork.PackMethodPanic(definition.SporkCreateMethodName, "c17-paid", "amount attached"), big.NewInt(1+int64(r.Intn(1000))))
			sendOutcome("create-with-amount", "designated", err)
			if err == nil {
				e.creates[blk.Hash] = &c17Create{name: "c17-paid", desc: "amount attached", by: "designated", sender: g.Spork.Address.String()}
				types.ImplementedSporksMap[blk.Hash] = true
				created = append(created, blk.Hash)
			}
		case act < 66: // designated activation of a spork that is not active yet
			if id, ok := pickState(false); ok {
				_, err := e.activateSpork(g.Spork, id)
				sendOutcome("activate", "designated", err)
				if r.Intn(3) == 0 { // and once more in the same momentum
					_, err := e.activateSpork(g.Spork, id)
					sendOutcome("activate-twice-same-momentum", "designated", err)
				}
			}
		case act < 78: // repeated activation (before or after the enforcement height)
			if id, ok := pickState(true); ok {
				kp := g.Spork
				if r.Intn(4) == 0 {
					kp = community
				}
				_, err := e.activateSpork(kp, id)
				when := "before-E"
				if e.seen[id].E <= e.height() {
					when = "after-E"
				}
				sendOutcome("re-activate-"+when, c17KeyClass(kp), err)
			}
		case act < 90: // activation by a key that is not designated
			if id, ok := pick(); ok {
				kp := others[r.Intn(len(others))]
				if r.Intn(3) == 0 {
					kp = community
				}
				_, err := e.activateSpork(kp, id)
				sendOutcome("activate", c17KeyClass(kp), err)
			}
		case act < 95: // activation of an id that does not exist
			_, err := e.activateSpork(g.Spork, c17HashOf(fmt.Sprintf("missing-%d", step)))
			sendOutcome("activate-missing", "designated", err)
		default: // activation call with an amount / truncated data
			if id, ok := pick(); ok {
				data := definition.ABISpork.PackMethodPanic(definition.SporkActivateMethodName, id)
				blk, err := e.sporkCall(g.Spork, data[:len(data)-1-r.Intn(20)], big.NewInt(0))
				sendOutcome("activate-truncated", "designated", err)
				if err == nil {
					e.acts[id] = append(e.acts[id], &c17Act{hash: blk.Hash, by: "designated"})
				}
			}
		}
		for k := r.Intn(3); k > 0 && !e.dead; k-- {
			e.produce()
		}
	}
	if e.dead {
		return
	}
	// let every pending receive land and every enforcement height pass
	maxE := e.height()
	e.produceN(3)
	for _, sp := range e.seen {
		if sp.Activated && sp.E > maxE {
			maxE = sp.E
		}
	}
	for !e.dead && e.height() < maxE+2 {
		e.produce()
	}
	if e.dead {
		return
	}
	// the gate evaluation walks every stored spork: it must still work on P
	for _, s := range c17Sporks {
		if _, err := e.P.Chain.GetFrontierMomentumStore().IsSporkActive(s.impl); err != nil {
			e.viol("spork-gate-evaluation-fails", map[string]interface{}{"error": err.Error(), "sporks": e.seen})
		}
		c.Eval(1)
	}
	c.Count("sporks_in_storage", len(e.seen))
	c.Count("sporks_activated", len(e.firstActive))
	cuts := map[uint64]bool{}
	for h := uint64(3); h <= e.height(); h++ {
		if r.Intn(6) == 0 {
			cuts[h] = true
		}
	}
	if !e.syncFollower(cuts, "auth-final") {
		return
	}
	fs, err := c17ReadSporks(e.F)
	if err != nil || len(fs) != len(e.seen) {
		e.viol("follower-disagrees spork-storage", map[string]interface{}{"error": fmt.Sprint(err), "follower": len(fs), "producer": len(e.seen)})
	}
}

// ===== halt =====
// c17HaltSpec is handed to a grand-child process through the environment.
type c17HaltSpec struct {
	Mode             string   `json:"mode"` // produce | reopen | follow
	Dir              string   `json:"dir"`
	Pre              int      `json:"pre"`
	Gap              int      `json:"gap"`
	ImplementedFirst bool     `json:"implemented_first"`
	Extra            int      `json:"extra"`
	File             string   `json:"file"`
	Sizes            []int    `json:"sizes"`
	Implemented      []string `json:"implemented"`
}

func c17Say(format string, a ...interface{}) {
	fmt.Printf("C17:"+format+"\n", a...)
	_ = os.Stdout.Sync()
}

// c17GrandChild runs in a process of its own (spawned by a halt:* case). It never returns to fw.
func c17GrandChild(specJSON string) {
	var spec c17HaltSpec
	if err := json.Unmarshal([]byte(specJSON), &spec); err != nil {
		c17Say("ERR bad spec %v", err)
		os.Exit(3)
	}
	defer func() {
		if r := recover(); r != nil {
			c17Say("ERR panic %v", r)
			os.Exit(4)
		}
	}()
	for _, h := range spec.Implemented {
		types.ImplementedSporksMap[types.HexToHashPanic(h)] = true
	}
	switch spec.Mode {
	case "reopen":
		n := simnet.Open("R", spec.Dir, simnet.MockGenesis(), nil)
		c17Say("OPENED %d", n.Height())
		n.Stop()
		os.Exit(0)
	case "follow":
		batches, err := c17ReadMomentums(spec.File)
		if err != nil {
			c17Say("ERR %v", err)
			os.Exit(3)
		}
		n := simnet.Open("F", spec.Dir, simnet.MockGenesis(), nil)
		i, k := 0, 0
		for i < len(batches) {
			size := 1
			if len(spec.Sizes) > 0 {
				size = spec.Sizes[k%len(spec.Sizes)]
				k++
			}
			if size < 1 {
				size = 1
			}
			j := i + size
			if j > len(batches) {
				j = len(batches)
			}
			if idx, err := n.InsertChain(batches[i:j]); err != nil {
				c17Say("ERR insert-chain at %d: %v", idx, err)
				os.Exit(3)
			}
			c17Say("H %d", n.Height())
			i = j
		}
		c17Say("PAST %d", n.Height())
		n.Stop()
		os.Exit(0)
	case "produce":
		n := simnet.Open("P", spec.Dir, simnet.MockGenesis(), g.PillarKeys)
		step := func() {
			m, err := n.Produce(0)
			if err != nil || m == nil {
				c17Say("ERR cannot produce at %d: %v", n.Height()+1, err)
				os.Exit(3)
			}
			c17Say("H %d", n.Height())
		}
		call := func(data []byte) types.Hash {
			blk, err := n.Submit(&nom.AccountBlock{BlockType: nom.BlockTypeUserSend, Address: g.Spork.Address, ToAddress: types.SporkContract, Data: data}, g.Spork)
			if err != nil {
				c17Say("ERR spork call refused: %v", err)
				os.Exit(3)
			}
			return blk.Hash
		}
		for i := 0; i < spec.Pre; i++ {
			step()
		}
		if spec.ImplementedFirst {
			id0 := call(definition.ABISpork.PackMethodPanic(definition.SporkCreateMethodName, "c17-known", "implemented by this node"))
			types.HtlcSpork.SporkId = id0
			types.ImplementedSporksMap[id0] = true
			c17Say("KNOWN %v", id0)
			step()
			call(definition.ABISpork.PackMethodPanic(definition.SporkActivateMethodName, id0))
			step()
		}
		id := call(definition.ABISpork.PackMethodPanic(definition.SporkCreateMethodName, "c17-unknown", "not implemented by this node"))
		c17Say("ID %v", id)
		for i := 0; i < spec.Gap; i++ {
			step()
		}
		call(definition.ABISpork.PackMethodPanic(definition.SporkActivateMethodName, id))
		E := uint64(0)
		for guard := 0; guard < 60; guard++ {
			step()
			if E == 0 {
				if sporks, err := c17ReadSporks(n); err == nil {
					if sp := sporks[id]; sp != nil && sp.Activated {
						E = sp.E
						c17Say("E %d", E)
					}
				}
			}
			if E != 0 && n.Height() >= E+uint64(spec.Extra) {
				break
			}
		}
		c17Say("PAST %d", n.Height())
		n.Stop()
		os.Exit(0)
	}
	c17Say("ERR unknown mode %q", spec.Mode)
	os.Exit(3)
}

func c17WriteMomentums(path string, l []*nom.DetailedMomentum) error {
	var buf bytes.Buffer
	put := func(b []byte) {
		var n [4]byte
		binary.BigEndian.PutUint32(n[:], uint32(len(b)))
		buf.Write(n[:])
		buf.Write(b)
	}
	for _, d := range l {
		mb, err := d.Momentum.Serialize()
		if err != nil {
			return err
		}
		put(mb)
		var n [4]byte
		binary.BigEndian.PutUint32(n[:], uint32(len(d.AccountBlocks)))
		buf.Write(n[:])
		for _, b := range d.AccountBlocks {
			bb, err := b.Serialize()
			if err != nil {
				return err
			}
			put(bb)
		}
	}
	return os.WriteFile(path, buf.Bytes(), 0o644)
}

func c17ReadMomentums(path string) ([]*nom.DetailedMomentum, error) {
	data, err := os.ReadFile(path)
	if err != nil {
		return nil, err
	}
	pos := 0
	u32 := func() (uint32, error) {
		if pos+4 > len(data) {
			return 0, fmt.Errorf("truncated file")
		}
		v := binary.BigEndian.Uint32(data[pos:])
		pos += 4
		return v, nil
	}
	get := func() ([]byte, error) {
		n, err := u32()
		if err != nil {
			return nil, err
		}
		if pos+int(n) > len(data) {
			return nil, fmt.Errorf("truncated file")
		}
		b := data[pos : pos+int(n)]
		pos += int(n)
		return b, nil
	}
	var out []*nom.DetailedMomentum
	for pos < len(data) {
		mb, err := get()
		if err != nil {
			return nil, err
		}
		m, err := nom.DeserializeMomentum(mb)
		if err != nil {
			return nil, err
		}
		nb, err := u32()
		if err != nil {
			return nil, err
		}
		d := &nom.DetailedMomentum{Momentum: m}
		for i := uint32(0); i < nb; i++ {
			bb, err := get()
			if err != nil {
				return nil, err
			}
			b, err := nom.DeserializeAccountBlock(bb)
			if err != nil {
				return nil, err
			}
			d.AccountBlocks = append(d.AccountBlocks, b)
		}
		out = append(out, d)
	}
	return out, nil
}

type c17HaltResult struct {
	Exit    int
	ID      string
	Known   []string
	E       uint64
	LastH   uint64
	Past    bool
	Opened  bool
	OpenedH uint64
	Errs    []string
	Tail    string
	Timeout bool
}

func c17Spawn(spec *c17HaltSpec) *c17HaltResult {
	exe, err := os.Executable()
	if err != nil {
		exe = os.Args[0]
	}
	js, _ := json.Marshal(spec)
	cmd := exec.Command(exe)
	cmd.Env = append(os.Environ(), c17EnvVar+"="+string(js))
	var out bytes.Buffer
	cmd.Stdout = &out
	cmd.Stderr = &out
	res := &c17HaltResult{}
	if err := cmd.Start(); err != nil {
		res.Exit = -1
		res.Errs = append(res.Errs, err.Error())
		return res
	}
	done := make(chan error, 1)
	go func() { done <- cmd.Wait() }()
	select {
	case err = <-done:
	case <-time.After(5 * time.Minute): // watchdog only: becomes an inconclusive case, never a verdict
		_ = cmd.Process.Kill()
		err = <-done
		res.Timeout = true
	}
	if err != nil {
		if ee, ok := err.(*exec.ExitError); ok {
			res.Exit = ee.ExitCode()
		} else {
			res.Exit = -1
			res.Errs = append(res.Errs, err.Error())
		}
	}
	sc := bufio.NewScanner(bytes.NewReader(out.Bytes()))
	sc.Buffer(make([]byte, 1<<20), 1<<20)
	for sc.Scan() {
		line := sc.Text()
		if !strings.HasPrefix(line, "C17:") {
			continue
		}
		f := strings.Fields(line[4:])
		if len(f) == 0 {
			continue
		}
		num := func() uint64 {
			if len(f) < 2 {
				return 0
			}
			v, _ := strconv.ParseUint(f[1], 10, 64)
			return v
		}
		switch f[0] {
		case "ID":
			if len(f) > 1 {
				res.ID = f[1]
			}
		case "KNOWN":
			if len(f) > 1 {
				res.Known = append(res.Known, f[1])
			}
		case "E":
			res.E = num()
		case "H":
			res.LastH = num()
		case "PAST":
			res.Past = true
			res.LastH = num()
		case "OPENED":
			res.Opened = true
			res.OpenedH = num()
		case "ERR":
			res.Errs = append(res.Errs, strings.Join(f[1:], " "))
		}
	}
	// keep only the node's own console output (not its log records) as the witness tail
	var keep []string
	for _, line := range strings.Split(out.String(), "\n") {
		if line == "" || strings.HasPrefix(line, "t=") {
			continue
		}
		keep = append(keep, line)
	}
	if len(keep) > 14 {
		keep = keep[len(keep)-14:]
	}
	res.Tail = strings.Join(keep, " | ")
	return res
}

// c17DiskFrontier reads the frontier height persisted in a node directory without starting a chain on it.
func c17DiskFrontier(dir string) uint64 {
	mgr := db.NewLevelDBManager(dir)
	defer mgr.Stop()
	return db.GetFrontierIdentifier(mgr.Frontier()).Height
}

func c17RunHalt(c *fw.C, caseID string) {
	r := c.Rand(caseID)
	k, _ := strconv.Atoi(strings.TrimPrefix(caseID, "halt:"))
	dir := c.ScratchDir("c17-halt")
	defer os.RemoveAll(dir)
	nodeDir := filepath.Join(dir, "node")
	mode := "produce"
	if k%3 == 2 {
		mode = "follow"
	}
	var first *c17HaltResult
	var E uint64
	params := ""
	if mode == "produce" {
		spec := &c17HaltSpec{Mode: "produce", Dir: nodeDir, Pre: 1 + r.Intn(8), Gap: r.Intn(4), ImplementedFirst: r.Intn(2) == 0, Extra: 3}
		params = fmt.Sprintf("gap=%d implemented-first=%v", spec.Gap, spec.ImplementedFirst)
		first = c17Spawn(spec)
		E = first.E
	} else {
		// a chain produced by a node that implements the spork, synced by a node that does not
		e := c17NewEnv(c, caseID, false)
		ok := func() bool {
			defer e.close()
			if !e.produceN(1 + r.Intn(6)) {
				return false
			}
			id, err := e.createSpork(g.Spork, "c17-unknown-to-follower", "implemented by the producer only")
			if err != nil {
				c.Inconclusive("create refused: " + err.Error())
				return false
			}
			types.HtlcSpork.SporkId = id
			e.produceN(r.Intn(3))
			if _, err := e.activateSpork(g.Spork, id); err != nil {
				c.Inconclusive("activate refused: " + err.Error())
				return false
			}
			for i := 0; i < 40 && !e.dead; i++ {
				e.produce()
				if sp := e.seen[id]; sp != nil && sp.Activated {
					E = sp.E
					if e.height() >= E+4 {
						break
					}
				}
			}
			if E == 0 || e.dead {
				c.Inconclusive("producer did not reach the enforcement height")
				return false
			}
			return c17WriteMomentums(filepath.Join(dir, "chain.bin"), e.P.Range(2, e.height())) == nil
		}()
		if !ok {
			return
		}
		var sizes []int
		for i := 0; i < 8; i++ {
			sizes = append(sizes, 1+r.Intn(9))
		}
		params = fmt.Sprintf("sizes=%v", sizes[:3])
		first = c17Spawn(&c17HaltSpec{Mode: "follow", Dir: nodeDir, File: filepath.Join(dir, "chain.bin"), Sizes: sizes})
		first.E = E
	}
	c.Eval(1)
	if first.Timeout {
		c.Inconclusive("grand-child watchdog fired (" + mode + ")")
		return
	}
	w := map[string]interface{}{"mode": mode, "params": params, "result": first}
	if E == 0 {
		c.Inconclusive(fmt.Sprintf("grand-child never reported an enforcement height: exit=%d errs=%v tail=%q", first.Exit, first.Errs, first.Tail))
		return
	}
	disk := c17DiskFrontier(nodeDir)
	w["frontier_on_disk"] = disk
	w["enforcement_height"] = E
	switch {
	case first.Past || (mode == "produce" && first.LastH >= E) || disk > E:
		c.Violation("node-continues-past-unimplemented-spork "+mode, w)
	case first.Exit != 2:
		c.Violation("unimplemented-spork-halt-unexpected-exit "+mode, w)
	default:
		c.Distinct(fmt.Sprintf("halt|%s|%s|stopped-at-E%+d", mode, params, int64(disk)-int64(E)))
		c.SetAdd("halt_frontier_minus_E", fmt.Sprintf("%s %+d", mode, int64(disk)-int64(E)))
	}
	c.Sample(map[string]interface{}{"case": caseID, "mode": mode, "E": E, "exit": first.Exit, "last_height_reported": first.LastH, "frontier_on_disk": disk})
	if disk < E {
		// the enforced state never reached the disk: reopening proves nothing
		c.Count("halt_reopen_skipped_frontier_below_E", 1)
		return
	}
	// reopening the same directory must stop again, every time
	impl := first.Known // sporks the stopped node did implement (patched in that process only)
	reopens := 1 + r.Intn(2)
	for i := 0; i < reopens; i++ {
		re := c17Spawn(&c17HaltSpec{Mode: "reopen", Dir: nodeDir, Implemented: impl})
		c.Eval(1)
		if re.Timeout {
			c.Inconclusive("grand-child watchdog fired (reopen)")
			return
		}
		w2 := map[string]interface{}{"mode": mode, "params": params, "enforcement_height": E, "frontier_on_disk": disk, "reopen": i + 1, "result": re}
		switch {
		case re.Opened:
			c.Violation("node-restarts-past-unimplemented-spork "+mode, w2)
		case re.Exit != 2:
			c.Violation("unimplemented-spork-halt-unexpected-exit reopen", w2)
		default:
			c.Distinct(fmt.Sprintf("halt|reopen-%d|%s|%s", i+1, mode, params))
		}
		if after := c17DiskFrontier(nodeDir); after != disk {
			c.Count("reopen_changed_frontier_on_disk", 1)
		}
	}
}
