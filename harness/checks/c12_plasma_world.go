package checks

// C12 part 2 — node-level monitor: reference plasma accounting, the judge for
// accepted blocks, and the block-offering machinery.

import (
	"encoding/hex"
	"fmt"
	"math/big"
	"math/rand"
	"os"
	"regexp"
	"strings"

	"github.com/inconshreveable/log15"

	g "github.com/zenon-network/go-zenon/chain/genesis/mock"
	"github.com/zenon-network/go-zenon/chain/nom"
	"github.com/zenon-network/go-zenon/common"
	"github.com/zenon-network/go-zenon/common/types"
	"github.com/zenon-network/go-zenon/vm/embedded/definition"
	"github.com/zenon-network/go-zenon/wallet"

	"verif/harness/fw"
	"verif/harness/simnet"
)

type c12World struct {
	c      *fw.C
	n      *simnet.Node
	r      *rand.Rand
	caseID string

	fusedCache map[types.Hash]map[types.Address]*big.Int // momentum hash → beneficiary → Σ fusion entries
	nonces     map[string]*c12Nonce                      // address|previousHash → scanned nonces
	budget     int                                       // hashes per nonce scan
	aborted    bool

	offers, accepts int
}

// c12Nonce: for one (address, previousHash), the best and the worst nonce found in a fixed scan.
type c12Nonce struct {
	best      [8]byte
	bestValue uint64
	dstar     uint64 // largest difficulty the best nonce honours
	worst     [8]byte
	worstVal  uint64
}

func c12OpenWorld(c *fw.C, caseID string, r *rand.Rand) *c12World {
	simnet.Setup()
	// offers that the VM refuses by panicking (unknown selector, oversized data) are expected here; keep the child log small
	common.SupervisorLogger.SetHandler(log15.DiscardHandler())
	dir := c.ScratchDir(caseID)
	n := simnet.Open("n", dir, simnet.MockGenesis(), g.PillarKeys)
	return &c12World{c: c, n: n, r: r, caseID: caseID,
		fusedCache: map[types.Hash]map[types.Address]*big.Int{}, nonces: map[string]*c12Nonce{}, budget: 12000}
}

func (w *c12World) close() {
	dir := w.n.Dir
	w.n.Destroy()
	_ = os.RemoveAll(dir)
}

func (w *c12World) produce(k int) bool {
	for i := 0; i < k; i++ {
		m, err := w.n.Produce(0)
		if err != nil || m == nil {
			w.c.Inconclusive(fmt.Sprintf("cannot produce momentum at height %d: %v", w.n.Height()+1, err))
			w.aborted = true
			return false
		}
	}
	return true
}

// ---------------------------------------------------------------------------
// reference state

// fusedQsr: QSR fused for addr as of momentum ack — sum of the fusion entries found in the plasma contract storage.
func (w *c12World) fusedQsr(ack types.HashHeight, addr types.Address) (*big.Int, bool) {
	m, ok := w.fusedCache[ack.Hash]
	if !ok {
		ms := w.n.Chain.GetMomentumStore(ack)
		if ms == nil {
			return nil, false
		}
		m = map[types.Address]*big.Int{}
		st := ms.GetAccountStore(types.PlasmaContract).Storage()
		it := st.NewIterator([]byte{1})
		for it.Next() {
			v := it.Value()
			if len(v) == 0 {
				continue
			}
			e := new(definition.FusionInfo)
			if err := definition.ABIPlasma.UnpackVariable(e, "fusionInfo", v); err != nil || e.Amount == nil {
				continue
			}
			if m[e.Beneficiary] == nil {
				m[e.Beneficiary] = new(big.Int)
			}
			m[e.Beneficiary].Add(m[e.Beneficiary], e.Amount)
		}
		it.Release()
		w.fusedCache[ack.Hash] = m
		if len(w.fusedCache) > 64 {
			for k := range w.fusedCache {
				if k != ack.Hash {
					delete(w.fusedCache, k)
					break
				}
			}
		}
	}
	sum := new(big.Int)
	if m[addr] != nil {
		sum.Set(m[addr])
	}
	// the contract's own aggregate: never demand more than either reading gives
	if ms := w.n.Chain.GetMomentumStore(ack); ms != nil {
		if agg, err := ms.GetStakeBeneficialAmount(addr); err == nil && agg != nil && agg.Cmp(sum) != 0 {
			w.c.Count("fused_aggregate_differs_from_entries", 1)
			if agg.Cmp(sum) > 0 {
				sum.Set(agg)
			}
		}
	}
	return sum, true
}

// c12State is an account's situation just before an offer.
type c12State struct {
	kp          *wallet.KeyPair
	prev        types.HashHeight
	ack         types.HashHeight
	ackBack     int
	fork        bool
	depth       int    // unconfirmed ancestors
	fusedPlasma uint64 // what the QSR fused for the account provides at ack
	committed   *big.Int
	avail       uint64 // max(0, fusedPlasma − committed)
	ancestors   []string
}

func (w *c12World) state(kp *wallet.KeyPair, ackBack int, fork bool) *c12State {
	addr := kp.Address
	pool := w.n.Chain.GetUncommittedAccountBlocksByAddress(addr)
	st := &c12State{kp: kp, ackBack: ackBack, committed: new(big.Int)}
	st.prev = w.n.Chain.GetFrontierAccountStore(addr).Identifier()
	if fork && len(pool) > 0 {
		st.prev = pool[len(pool)-1].Previous()
		st.fork = true
	}
	fm := w.n.Frontier()
	st.ack = fm.Identifier()
	if ackBack > 0 && fm.Height > uint64(ackBack) {
		if m, err := w.n.Chain.GetFrontierMomentumStore().GetMomentumByHeight(fm.Height - uint64(ackBack)); err == nil && m != nil {
			st.ack = m.Identifier()
		}
	}
	for _, b := range pool {
		if b.Height <= st.prev.Height {
			st.depth++
			st.committed.Add(st.committed, new(big.Int).SetUint64(b.FusedPlasma))
			st.ancestors = append(st.ancestors, fmt.Sprintf("h=%d fused=%d difficulty=%d", b.Height, b.FusedPlasma, b.Difficulty))
		}
	}
	if q, ok := w.fusedQsr(st.ack, addr); ok {
		st.fusedPlasma = c12QsrPlasma(q)
	}
	rest := new(big.Int).Sub(new(big.Int).SetUint64(st.fusedPlasma), st.committed)
	if rest.Sign() > 0 {
		st.avail = rest.Uint64()
	}
	return st
}

// nonce scan for the state's (address, previous hash); deterministic in the world's PRNG.
func (w *c12World) nonce(st *c12State) *c12Nonce {
	key := st.kp.Address.String() + "|" + st.prev.Hash.String()
	if nn, ok := w.nonces[key]; ok {
		return nn
	}
	p := c12NewPowCtx(st.kp.Address, st.prev.Hash)
	nn := &c12Nonce{worstVal: ^uint64(0)}
	start := w.r.Uint64()
	for i := 0; i < w.budget; i++ {
		var nb [8]byte
		x := start + uint64(i)
		for j := 0; j < 8; j++ {
			nb[j] = byte(x >> (8 * uint(j)))
		}
		v := p.value(nb)
		if v >= nn.bestValue {
			nn.best, nn.bestValue = nb, v
		}
		if v <= nn.worstVal {
			nn.worst, nn.worstVal = nb, v
		}
	}
	nn.dstar = c12BoundaryDifficulty(nn.bestValue)
	if len(w.nonces) > 256 {
		w.nonces = map[string]*c12Nonce{}
	}
	w.nonces[key] = nn
	return nn
}

// ---------------------------------------------------------------------------
// operations and claims

type c12Op struct {
	label     string // what the generator meant; the judge classifies on its own and both must agree
	blockType uint64
	to        types.Address
	zts       types.ZenonTokenStandard
	amount    *big.Int
	data      []byte
	from      types.Hash
}

type c12Claim struct {
	name  string
	fused uint64
	diff  uint64
	nonce [8]byte
	// what the sender writes into the fields outside the hash (0 = leaves them empty, like a wallet)
	declBase, declTotal uint64
}

// c12Classify: block kind and base cost from the block alone.
func c12Classify(b *nom.AccountBlock) (label string, base *big.Int, known bool) {
	if b.BlockType == nom.BlockTypeUserReceive {
		return "receive", big.NewInt(c12Base), true
	}
	if b.ToAddress[0] != 1 { // not an embedded-contract address
		if len(b.Data) == 0 {
			return "send", big.NewInt(c12Base), true
		}
		return "send-data", big.NewInt(int64(c12Base + c12PerByte*len(b.Data))), true
	}
	if l, cost, ok := c12CostLookup(b.ToAddress, b.Data); ok {
		return l, new(big.Int).SetUint64(cost), true
	}
	return "call-unknown", big.NewInt(0), false
}

var c12HexRe = regexp.MustCompile(`[0-9a-f]{16,}|z1[0-9a-z]{38}|[0-9]{3,}`)

func c12Reason(err error) string {
	if err == nil {
		return ""
	}
	s := err.Error()
	if i := strings.Index(s, "; "); i > 0 {
		s = s[:i]
	}
	s = c12HexRe.ReplaceAllString(s, "#")
	if len(s) > 70 {
		s = s[:70]
	}
	return s
}

func c12U(v uint64) *big.Int { return new(big.Int).SetUint64(v) }

// offer builds the block, computes the reference, hands the block to the node through the given path and judges it if accepted.
func (w *c12World) offer(st *c12State, op c12Op, cl c12Claim, path string) (bool, string) {
	n := w.n
	b := &nom.AccountBlock{
		Version: 1, ChainIdentifier: n.Chain.ChainIdentifier(), BlockType: op.blockType,
		PreviousHash: st.prev.Hash, Height: st.prev.Height + 1, MomentumAcknowledged: st.ack,
		Address: st.kp.Address, ToAddress: op.to, Amount: big.NewInt(0), TokenStandard: op.zts,
		FromBlockHash: op.from, Data: append([]byte{}, op.data...),
		FusedPlasma: cl.fused, Difficulty: cl.diff,
	}
	if op.amount != nil && op.blockType == nom.BlockTypeUserSend {
		b.Amount = new(big.Int).Set(op.amount)
	}
	b.Nonce.Data = cl.nonce
	b.BasePlasma, b.TotalPlasma = cl.declBase, cl.declTotal

	// ---- reference, before the node sees the block
	label, base, known := c12Classify(b)
	if op.label != "" && !strings.HasPrefix(label, op.label) {
		w.c.Inconclusive(fmt.Sprintf("harness: generator label %q but judge classifies %q", op.label, label))
		return false, "harness"
	}
	powVerdict := 0
	var powValue uint64
	if cl.diff != 0 {
		powValue = c12NewPowCtx(b.Address, b.PreviousHash).value(cl.nonce)
		powVerdict = c12PowVerdict(powValue, cl.diff)
	}
	total := new(big.Int).Add(c12U(cl.fused), c12U(c12PowPlasma(cl.diff)))
	okPow := cl.diff == 0 || powVerdict >= 0
	okBase := !known || total.Cmp(base) >= 0
	okAvail := c12U(cl.fused).Cmp(c12U(st.avail)) <= 0
	okCap := total.Cmp(big.NewInt(c12Cap)) <= 0
	payable := okPow && okBase && okAvail && okCap

	// what the account would have if it acknowledged the frontier momentum (observation only)
	var frontierFused uint64
	if st.ackBack > 0 {
		frontierFused = w.state(st.kp, 0, st.fork).fusedPlasma
	}

	// ---- the node
	var err error
	switch path {
	case "template":
		// GenerateFromTemplate keeps explicit plasma fields unless both are zero
		var tx *nom.AccountBlockTransaction
		tx, err = n.Sup.GenerateFromTemplate(b, st.kp.Signer)
		if err == nil {
			n.LastBlockErr = nil
			n.CreateAccountBlock(tx)
			err = n.LastBlockErr
		}
	case "apply":
		b.Hash = b.ComputeHash()
		b.Signature = st.kp.Sign(b.Hash.Bytes())
		b.PublicKey = st.kp.Public
		var tx *nom.AccountBlockTransaction
		tx, err = n.Sup.ApplyBlock(b)
		if err == nil {
			n.LastBlockErr = nil
			n.CreateAccountBlock(tx)
			err = n.LastBlockErr
		}
	default: // "bridge": the way blocks from peers enter
		b.Hash = b.ComputeHash()
		b.Signature = st.kp.Sign(b.Hash.Bytes())
		b.PublicKey = st.kp.Public
		err = n.Bridge.AddAccountBlocks([]*nom.AccountBlock{b})
	}
	accepted := false
	if err == nil {
		if got, e2 := n.Chain.GetFrontierAccountStore(b.Address).ByHash(b.Hash); e2 == nil && got != nil && got.Height == b.Height {
			accepted = true
		}
	}
	w.offers++
	w.c.Eval(1)

	// ---- coverage
	depthClass := "pool=0"
	if st.depth == 1 {
		depthClass = "pool=1"
	} else if st.depth > 1 {
		depthClass = "pool=2+"
	}
	kindClass := label
	if i := strings.Index(kindClass, "("); i > 0 {
		kindClass = kindClass[:i]
	}
	outcome := "accepted"
	reason := ""
	if !accepted {
		reason = c12Reason(err)
		if err == nil {
			reason = "no error but not in pool"
		}
		outcome = "rejected"
		w.c.SetAdd("reject_reasons", reason)
	}
	w.c.SetAdd("block_kinds", label)
	w.c.Distinct(fmt.Sprintf("blk %s | %s | %s | %s", kindClass, cl.name, depthClass, outcome))
	w.c.Count("offers path="+path, 1)
	switch {
	case accepted && payable:
		w.c.Count("payable_accepted", 1)
	case !accepted && !payable:
		w.c.Count("unpayable_rejected", 1)
	case !accepted && payable:
		w.c.Count("payable_rejected (not judged): "+reason, 1)
		w.c.SetAdd("payable_rejected_by_kind_and_shape", reason+" | "+kindClass+" | "+cl.name)
	}
	if !accepted {
		return false, reason
	}
	w.accepts++
	w.c.Count("accepted_blocks_judged", 1)
	if st.depth > 0 {
		w.c.Count("accepted_on_unconfirmed_ancestors", 1)
	}
	if st.ackBack > 0 {
		w.c.Count("accepted_acknowledging_older_momentum", 1)
		if cl.fused > frontierFused {
			// allowed by the statement as read here (fusion is evaluated at the acknowledged momentum); reported as an observation
			w.c.Count("observation: accepted with fused plasma of a fusion already cancelled at the frontier (older momentum acknowledged)", 1)
		}
	}
	if label == "receive" && len(b.Data) > 0 {
		w.c.Count("observation: receive block carrying data accepted at the flat base cost", 1)
	}
	if len(w.nonces) > 0 && w.offers%97 == 0 {
		w.c.Sample(map[string]interface{}{"kind": label, "claim": cl.name, "fused": cl.fused, "difficulty": fmt.Sprintf("%d", cl.diff),
			"base": base.String(), "fused_qsr_plasma_at_ack": st.fusedPlasma, "committed_by_unconfirmed": st.committed.String(), "pool_depth": st.depth, "path": path, "outcome": outcome})
	}

	// ---- the judge: requirement on every ACCEPTED user block
	detail := func() map[string]interface{} {
		return map[string]interface{}{
			"path": path, "kind": label, "claim_shape": cl.name, "address": b.Address.String(), "height": b.Height,
			"toAddress": b.ToAddress.String(), "data_len": len(b.Data), "fusedPlasma": cl.fused, "difficulty": fmt.Sprintf("%d", cl.diff),
			"nonce": hex.EncodeToString(cl.nonce[:]), "pow_value": fmt.Sprintf("%d", powValue),
			"pow_plasma_if_honoured": c12PowPlasma(cl.diff), "base_cost": base.String(),
			"momentumAcknowledged_height": st.ack.Height, "frontier_momentum_height": w.n.Height(),
			"fused_qsr_plasma_at_ack": st.fusedPlasma, "committed_by_unconfirmed_ancestors": st.committed.String(),
			"unconfirmed_ancestors": st.ancestors, "available_fused": st.avail, "cap": c12Cap,
			"node_BasePlasma": b.BasePlasma, "node_TotalPlasma": b.TotalPlasma,
		}
	}
	if !okPow {
		if cl.fused == 0 {
			w.c.Count("observation: block accepted with zero fused plasma and a PoW claim its nonce does not meet", 1)
		}
		d := detail()
		d["threshold"] = c12Threshold(cl.diff).String()
		c12Report(w.c, "block-accepted pow-claim-below-threshold "+c12Range(cl.diff), d)
	}
	if !okBase {
		k := kindClass
		if strings.HasPrefix(k, "call ") {
			k = "call"
		}
		c12Report(w.c, "block-accepted total-plasma-below-base-cost "+k, detail())
	}
	if !okAvail {
		s := "no-unconfirmed"
		if st.depth > 0 {
			s = "with-unconfirmed"
		}
		c12Report(w.c, "block-accepted fused-exceeds-available "+s, detail())
	}
	if !okCap {
		c12Report(w.c, "block-accepted total-above-cap", detail())
	}
	return true, ""
}
