package checks

// C20 — genesis: same config, same chain; inconsistent config or database refused.
//
// Oracle (differential + naive arithmetic):
//   * one seeded generator of CONSISTENT genesis configurations; every
//     configuration is constructed many ways (twice in one process, in a fresh
//     OS process, with each unordered list permuted, with all lists permuted,
//     through a JSON file whose object keys are shuffled) and the genesis
//     momentum hash, the serialized momentum, the genesis change set and the
//     FULL frontier dump of a node opened on a fresh LevelDB must be identical;
//   * perturbations that break the balance arithmetic (or remove a required
//     section / amount) must be refused by CheckGenesis and by
//     ReadGenesisConfigFromFile;
//   * a database created with configuration A must refuse chain.Init with
//     configuration B exactly when the stored height-1 momentum differs from
//     B's genesis momentum.

import (
	"bytes"
	"context"
	"crypto/sha256"
	"encoding/hex"
	"encoding/json"
	"fmt"
	"math/big"
	"math/rand"
	"os"
	"os/exec"
	"path/filepath"
	"sort"
	"strconv"
	"strings"
	"time"

	"github.com/zenon-network/go-zenon/chain"
	"github.com/zenon-network/go-zenon/chain/genesis"
	"github.com/zenon-network/go-zenon/chain/store"
	"github.com/zenon-network/go-zenon/common/db"
	"github.com/zenon-network/go-zenon/common/types"
	"github.com/zenon-network/go-zenon/vm/constants"
	"github.com/zenon-network/go-zenon/vm/embedded/definition"
	"github.com/zenon-network/go-zenon/wallet"

	"verif/harness/fw"
	"verif/harness/simnet"
)

// c20FreshEnv, when set, turns this process into the "fresh process" helper of
// one cfg case: it re-derives the configuration from (seed, label), builds the
// genesis, opens a node, writes the fingerprint to a file and exits. This keeps
// every cfg case self-contained (and therefore replayable) without relying on
// the driver's sharding.
const c20FreshEnv = "C20_FRESH_REQUEST"

func init() {
	if p := os.Getenv(c20FreshEnv); p != "" {
		os.Exit(c20FreshMain(p))
	}
	fw.Register(&fw.Check{
		ID:    "C20",
		Level: "exploration",
		Rule: "cfg:<i> = one PRNG-generated consistent genesis configuration (0-40 accounts, ZNN+QSR+0-6 tokens, 1-45 pillars, delegations, legacy entries, fusions, swap entries, nil/0-3 sporks, random chain id / extra data / timestamp) " +
			"constructed base + repeat + 8 single-list permutations + all-lists permutation + shuffled-JSON file + fresh OS process, with 3-4 node opens on fresh LevelDB dirs; " +
			"pert:<i> = every applicable perturbation class (balance/supply/collateral/fusion +-1, unbacked pillar or fusion, swap contract holding funds, foreign token on a checked contract, undeclared/unheld token, missing section, nil amount/entry) of one configuration, judged through CheckGenesis and through a JSON file; " +
			"pair:<i> = database created with A (optionally advanced by real pillar production), chain.Init with B (identical, permuted+JSON, other spork address, one consistent semantic edit, unrelated); " +
			"distinct_nontrivial counts distinct genesis hashes that went through all constructions, distinct (perturbation class, outcome) and distinct (pair mode, stored==configured, Init outcome)",
		Cases:       c20Cases,
		Run:         c20Run,
		MinDistinct: 60,
		Assumptions: []string{
			"lists are sets keyed by their storage key (pillar name and producer address, delegation backer, legacy/swap key-id hash, fusion owner+id, token standard, spork id, block address): generated configurations never repeat a key inside one list",
			"generated sporks are never both active at height 1 and unimplemented (chain.Init calls os.Exit(2) for those)",
			"fresh-process construction re-derives the configuration from the seed; the digest of its canonical JSON is compared first so that a generator divergence is reported as inconclusive, not as a violation",
			"equality of stored and configured genesis in pair cases is decided by the height-1 momentum hash read back from the database, as the statement does",
		},
	})
}

func c20Cases(tier string, seed int64) []string {
	nCfg, nPert, nPair := 192, 96, 256
	if tier == "thorough" {
		nCfg, nPert, nPair = 3000, 1200, 3000
	}
	var l []string
	// interleave so that every shard gets a mix of cheap and expensive cases
	for i := 0; i < nCfg || i < nPert || i < nPair; i++ {
		if i < nCfg {
			l = append(l, fmt.Sprintf("cfg:%d", i))
		}
		if i < nPert {
			l = append(l, fmt.Sprintf("pert:%d", i))
		}
		if i < nPair {
			l = append(l, fmt.Sprintf("pair:%d", i))
		}
	}
	return l
}

func c20Run(c *fw.C, caseID string) {
	simnet.Setup()
	kind := caseID
	if i := strings.IndexByte(caseID, ':'); i > 0 {
		kind = caseID[:i]
	}
	switch kind {
	case "cfg":
		c20RunCfg(c, caseID)
	case "pert":
		c20RunPert(c, caseID)
	case "pair":
		c20RunPair(c, caseID)
	default:
		c.Inconclusive("unknown case kind " + caseID)
	}
}

// ---------------------------------------------------------------------------
// generator of consistent configurations

var (
	c20Restricted = map[types.Address]bool{types.PillarContract: true, types.PlasmaContract: true, types.SwapContract: true}
	c20ListNames  = []string{
		"PillarConfig.Pillars", "PillarConfig.Delegations", "PillarConfig.LegacyEntries", "TokenConfig.Tokens",
		"PlasmaConfig.Fusions", "SwapConfig.Entries", "SporkConfig.Sporks", "GenesisBlocks.Blocks",
	}
	c20OtherEmbedded = []types.Address{
		types.StakeContract, types.SporkContract, types.TokenContract, types.SentinelContract,
		types.LiquidityContract, types.AcceleratorContract, types.HtlcContract, types.BridgeContract,
	}
)

func c20SporkIds() []types.Hash {
	var l []types.Hash
	for id := range types.ImplementedSporksMap {
		l = append(l, id)
	}
	sort.Slice(l, func(a, b int) bool { return bytes.Compare(l[a][:], l[b][:]) < 0 })
	return l
}

func c20RandAddr(r *rand.Rand) types.Address {
	var a types.Address
	r.Read(a[1:])
	a[0] = types.UserAddrByte
	return a
}

func c20RandHash(r *rand.Rand) types.Hash {
	var h types.Hash
	r.Read(h[:])
	return h
}

func c20RandZts(r *rand.Rand) types.ZenonTokenStandard {
	var z types.ZenonTokenStandard
	r.Read(z[:])
	return z
}

func c20Amount(r *rand.Rand) *big.Int {
	switch r.Intn(12) {
	case 0:
		return big.NewInt(0)
	case 1:
		return big.NewInt(1 + r.Int63n(1000))
	case 2:
		// beyond int64 / float64 precision: exercises the JSON number path
		v := new(big.Int).Lsh(big.NewInt(1+r.Int63n(1<<40)), uint(30+r.Intn(60)))
		return v.Add(v, big.NewInt(r.Int63n(1<<30)))
	case 3:
		return big.NewInt(r.Int63n(1 << 62))
	default:
		return new(big.Int).Mul(big.NewInt(1+r.Int63n(2000000)), big.NewInt(100000000))
	}
}

const c20NameChars = "abcdefghijklmnopqrstuvwxyzABCDEFGHIJKLMNOPQRSTUVWXYZ0123456789"

func c20Name(r *rand.Rand, min, max int) string {
	n := min + r.Intn(max-min+1)
	b := make([]byte, n)
	for i := range b {
		b[i] = c20NameChars[r.Intn(len(c20NameChars))]
		if i > 0 && i < n-1 && b[i-1] != '-' && r.Intn(9) == 0 {
			b[i] = '-'
		}
	}
	return string(b)
}

var c20TextPieces = []string{"\"", "\\", "<", ">", "&", "é", " ", "世界", "\n", "\t", "#", " ", "{", "}", "[", "]", ":", ",", "null", "\u0001"}

func c20Text(r *rand.Rand, max int) string {
	n := r.Intn(max + 1)
	var sb strings.Builder
	for i := 0; i < n; i++ {
		if r.Intn(6) == 0 {
			sb.WriteString(c20TextPieces[r.Intn(len(c20TextPieces))])
		} else {
			sb.WriteByte(c20NameChars[r.Intn(len(c20NameChars))])
		}
	}
	return sb.String()
}

// c20Skewed returns a number in [lo, hi] biased towards the low end (the cost of a case grows with it).
func c20Skewed(r *rand.Rand, lo, hi int) int {
	if hi <= lo {
		return lo
	}
	span := hi - lo + 1
	switch r.Intn(4) {
	case 0:
		return lo + r.Intn(span)
	case 1:
		return lo + r.Intn((span+1)/2)
	default:
		return lo + r.Intn((span+3)/4)
	}
}

type c20Generated struct {
	Cfg  *genesis.GenesisConfig
	Keys []*wallet.KeyPair // producing keys of all generated pillars
}

func c20AddBalance(cfg *genesis.GenesisConfig, addr types.Address, zts types.ZenonTokenStandard, amount *big.Int) {
	for _, b := range cfg.GenesisBlocks.Blocks {
		if b.Address == addr {
			if b.BalanceList == nil {
				b.BalanceList = map[types.ZenonTokenStandard]*big.Int{}
			}
			if cur, ok := b.BalanceList[zts]; ok && cur != nil {
				cur.Add(cur, amount)
			} else {
				b.BalanceList[zts] = new(big.Int).Set(amount)
			}
			return
		}
	}
	cfg.GenesisBlocks.Blocks = append(cfg.GenesisBlocks.Blocks, &genesis.GenesisBlockConfig{
		Address:     addr,
		BalanceList: map[types.ZenonTokenStandard]*big.Int{zts: new(big.Int).Set(amount)},
	})
}

func c20FindBlock(cfg *genesis.GenesisConfig, addr types.Address) *genesis.GenesisBlockConfig {
	for _, b := range cfg.GenesisBlocks.Blocks {
		if b != nil && b.Address == addr {
			return b
		}
	}
	return nil
}

// c20Generate builds a consistent configuration. small caps the list sizes (used by pert / pair cases).
// producible: genesis time is not before the harness clock and every pillar is a plain active pillar so
// that the chain can be advanced by real pillar production.
func c20Generate(r *rand.Rand, small, producible bool) *c20Generated {
	maxAcc, maxPillars, maxFus, maxSwap, maxDeleg, maxLegacy := 40, 45, 30, 20, 30, 10
	if small {
		maxAcc, maxPillars, maxFus, maxSwap, maxDeleg, maxLegacy = 8, 6, 6, 4, 6, 3
	}
	cfg := &genesis.GenesisConfig{
		PillarConfig:  &genesis.PillarContractConfig{},
		TokenConfig:   &genesis.TokenContractConfig{},
		PlasmaConfig:  &genesis.PlasmaContractConfig{},
		SwapConfig:    &genesis.SwapContractConfig{},
		GenesisBlocks: &genesis.GenesisBlocksConfig{},
	}
	out := &c20Generated{Cfg: cfg}
	switch r.Intn(3) {
	case 0:
		cfg.ChainIdentifier = uint64(1 + r.Intn(200))
	case 1:
		cfg.ChainIdentifier = uint64(r.Int63())
	default:
		cfg.ChainIdentifier = r.Uint64()
	}
	cfg.ExtraData = c20Text(r, 80)
	// producible chains: not before the harness clock (pillars refuse late slots) and far enough in the
	// past of the real clock (the momentum verifier refuses timestamps in the future of time.Now)
	cfg.GenesisTimestampSec = 1000000000 + r.Int63n(500000000)
	if !producible {
		switch r.Intn(4) {
		case 0:
			cfg.GenesisTimestampSec = 1 + r.Int63n(1000000000)
		case 1:
			cfg.GenesisTimestampSec = 1500000000 + r.Int63n(2500000000)
		}
	}
	sa := c20RandAddr(r)
	cfg.SporkAddress = &sa

	// accounts (unique by construction of 19 random bytes; enforced anyway)
	seenAddr := map[types.Address]bool{}
	fresh := func() types.Address {
		for {
			a := c20RandAddr(r)
			if !seenAddr[a] {
				seenAddr[a] = true
				return a
			}
		}
	}
	nAcc := c20Skewed(r, 0, maxAcc)
	accounts := make([]types.Address, 0, nAcc)
	for i := 0; i < nAcc; i++ {
		accounts = append(accounts, fresh())
	}

	// pillars
	nPillars := c20Skewed(r, 1, maxPillars)
	keySeed := make([]byte, 16)
	r.Read(keySeed)
	seenName := map[string]bool{}
	pillarSum := big.NewInt(0)
	for i := 0; i < nPillars; i++ {
		kp, err := wallet.DeriveWithIndex(uint32(i), keySeed)
		if err != nil {
			panic(err)
		}
		out.Keys = append(out.Keys, kp)
		seenAddr[kp.Address] = true
		name := c20Name(r, 3, 30)
		for seenName[name] {
			name = c20Name(r, 3, 30)
		}
		seenName[name] = true
		p := &definition.PillarInfo{
			Name:                         name,
			BlockProducingAddress:        kp.Address,
			RewardWithdrawAddress:        kp.Address,
			StakeAddress:                 kp.Address,
			Amount:                       new(big.Int).Set(constants.PillarStakeAmount),
			RegistrationTime:             cfg.GenesisTimestampSec,
			GiveBlockRewardPercentage:    uint8(r.Intn(101)),
			GiveDelegateRewardPercentage: uint8(r.Intn(101)),
			PillarType:                   definition.LegacyPillarType,
		}
		if r.Intn(3) == 0 && len(accounts) > 0 {
			p.RewardWithdrawAddress = accounts[r.Intn(len(accounts))]
		}
		if r.Intn(3) == 0 {
			p.StakeAddress = c20RandAddr(r)
		}
		if r.Intn(4) == 0 {
			p.PillarType = definition.NormalPillarType
		}
		if !producible {
			switch r.Intn(8) {
			case 0:
				p.Amount = c20Amount(r)
			case 1:
				p.Amount = big.NewInt(0)
			}
			if r.Intn(6) == 0 {
				p.RegistrationTime = r.Int63n(2000000000)
			}
			// a revoked pillar is still a pillar entry (never the first one: a node needs a producer)
			if i > 0 && r.Intn(8) == 0 {
				p.RevokeTime = 1 + r.Int63n(2000000000)
			}
		}
		pillarSum.Add(pillarSum, p.Amount)
		cfg.PillarConfig.Pillars = append(cfg.PillarConfig.Pillars, p)
	}

	holders := append([]types.Address{}, accounts...)
	for _, kp := range out.Keys {
		holders = append(holders, kp.Address)
	}
	for _, a := range c20OtherEmbedded {
		if r.Intn(4) == 0 {
			holders = append(holders, a)
		}
	}
	r.Shuffle(len(holders), func(i, j int) { holders[i], holders[j] = holders[j], holders[i] })

	// tokens and balances of unrestricted holders
	type tok struct {
		zts  types.ZenonTokenStandard
		info *definition.TokenInfo
	}
	toks := []tok{
		{types.ZnnTokenStandard, &definition.TokenInfo{Owner: types.PillarContract, TokenName: "Zenon Coin", TokenSymbol: "ZNN", TokenDomain: "zenon.network", Decimals: 8, IsMintable: true, IsBurnable: true, IsUtility: true}},
		{types.QsrTokenStandard, &definition.TokenInfo{Owner: types.StakeContract, TokenName: "QuasarCoin", TokenSymbol: "QSR", TokenDomain: "zenon.network", Decimals: 8, IsMintable: true, IsBurnable: true, IsUtility: true}},
	}
	nExtra := r.Intn(7)
	if small {
		nExtra = r.Intn(3)
	}
	seenZts := map[types.ZenonTokenStandard]bool{types.ZnnTokenStandard: true, types.QsrTokenStandard: true}
	for i := 0; i < nExtra; i++ {
		z := c20RandZts(r)
		for seenZts[z] {
			z = c20RandZts(r)
		}
		seenZts[z] = true
		owner := c20RandAddr(r)
		if len(holders) > 0 && r.Intn(2) == 0 {
			owner = holders[r.Intn(len(holders))]
		}
		toks = append(toks, tok{z, &definition.TokenInfo{
			Owner: owner, TokenName: c20Name(r, 1, 40), TokenSymbol: strings.ToUpper(c20Name(r, 1, 10)), TokenDomain: c20Text(r, 20),
			Decimals: uint8(r.Intn(19)), IsMintable: r.Intn(2) == 0, IsBurnable: r.Intn(2) == 0, IsUtility: r.Intn(2) == 0,
		}})
	}
	for _, t := range toks {
		k := 1 + r.Intn(1+len(holders)/2)
		if r.Intn(3) == 0 {
			k = 1 + r.Intn(len(holders))
		}
		for i := 0; i < k; i++ {
			c20AddBalance(cfg, holders[r.Intn(len(holders))], t.zts, c20Amount(r))
		}
	}
	// accounts that exist at genesis without any balance
	for i := 0; i < 3; i++ {
		if r.Intn(3) == 0 {
			a := fresh()
			var bl map[types.ZenonTokenStandard]*big.Int
			if r.Intn(2) == 0 {
				bl = map[types.ZenonTokenStandard]*big.Int{}
			}
			cfg.GenesisBlocks.Blocks = append(cfg.GenesisBlocks.Blocks, &genesis.GenesisBlockConfig{Address: a, BalanceList: bl})
		}
	}

	// pillar contract collateral
	c20ContractHolding(r, cfg, types.PillarContract, types.ZnnTokenStandard, pillarSum)

	// delegations: unique backers
	nDeleg := c20Skewed(r, 0, maxDeleg)
	seenBacker := map[types.Address]bool{}
	for i := 0; i < nDeleg; i++ {
		b := c20RandAddr(r)
		if len(holders) > 0 && r.Intn(3) != 0 {
			b = holders[r.Intn(len(holders))]
		}
		if seenBacker[b] {
			continue
		}
		seenBacker[b] = true
		cfg.PillarConfig.Delegations = append(cfg.PillarConfig.Delegations, &definition.DelegationInfo{
			Backer: b, Name: cfg.PillarConfig.Pillars[r.Intn(nPillars)].Name,
		})
	}
	// legacy pillar entries: unique key-id hashes
	nLegacy := c20Skewed(r, 0, maxLegacy)
	for i := 0; i < nLegacy; i++ {
		cfg.PillarConfig.LegacyEntries = append(cfg.PillarConfig.LegacyEntries, &definition.LegacyPillarEntry{
			KeyIdHash: c20RandHash(r), PillarCount: uint8(r.Intn(256)),
		})
	}

	// fusions: unique (owner, id); several fusions may share one beneficiary
	nFus := c20Skewed(r, 0, maxFus)
	fusSum := big.NewInt(0)
	type fk struct {
		o types.Address
		i types.Hash
	}
	seenFus := map[fk]bool{}
	var beneficiaries []types.Address
	for i := 0; i < nFus; i++ {
		owner := c20RandAddr(r)
		if len(holders) > 0 && r.Intn(4) != 0 {
			owner = holders[r.Intn(len(holders))]
		}
		id := c20RandHash(r)
		if r.Intn(6) == 0 {
			id = types.ZeroHash
		}
		if seenFus[fk{owner, id}] {
			continue
		}
		seenFus[fk{owner, id}] = true
		var ben types.Address
		switch {
		case len(beneficiaries) > 0 && r.Intn(3) == 0:
			ben = beneficiaries[r.Intn(len(beneficiaries))]
		case len(holders) > 0 && r.Intn(2) == 0:
			ben = holders[r.Intn(len(holders))]
		default:
			ben = c20RandAddr(r)
		}
		beneficiaries = append(beneficiaries, ben)
		f := &definition.FusionInfo{Owner: owner, Id: id, Amount: c20Amount(r), Beneficiary: ben}
		if r.Intn(3) == 0 {
			f.ExpirationHeight = uint64(r.Int63n(100000))
		}
		fusSum.Add(fusSum, f.Amount)
		cfg.PlasmaConfig.Fusions = append(cfg.PlasmaConfig.Fusions, f)
	}
	c20ContractHolding(r, cfg, types.PlasmaContract, types.QsrTokenStandard, fusSum)

	// swap entries: unique key-id hashes; the swap contract itself must hold nothing
	nSwap := c20Skewed(r, 0, maxSwap)
	for i := 0; i < nSwap; i++ {
		cfg.SwapConfig.Entries = append(cfg.SwapConfig.Entries, &definition.SwapAssets{
			KeyIdHash: c20RandHash(r), Znn: c20Amount(r), Qsr: c20Amount(r),
		})
	}
	switch r.Intn(5) {
	case 0:
		cfg.GenesisBlocks.Blocks = append(cfg.GenesisBlocks.Blocks, &genesis.GenesisBlockConfig{Address: types.SwapContract,
			BalanceList: map[types.ZenonTokenStandard]*big.Int{types.ZnnTokenStandard: big.NewInt(0), types.QsrTokenStandard: big.NewInt(0)}})
	case 1:
		cfg.GenesisBlocks.Blocks = append(cfg.GenesisBlocks.Blocks, &genesis.GenesisBlockConfig{Address: types.SwapContract,
			BalanceList: map[types.ZenonTokenStandard]*big.Int{}})
	}

	// sporks: nil section, or 0-3 entries with unique ids; never active-and-unimplemented at height 1
	if r.Intn(3) != 0 {
		cfg.SporkConfig = &genesis.SporkConfig{}
		impl := c20SporkIds()
		r.Shuffle(len(impl), func(i, j int) { impl[i], impl[j] = impl[j], impl[i] })
		n := r.Intn(4)
		for i := 0; i < n; i++ {
			s := &definition.Spork{Id: c20RandHash(r), Name: c20Name(r, 1, 20), Description: c20Text(r, 40)}
			switch r.Intn(3) {
			case 0: // defined, not activated
			case 1: // activated, enforced later
				s.Activated = true
				s.EnforcementHeight = uint64(1000 + r.Intn(100000))
			default: // an implemented spork, active from genesis
				if i < len(impl) {
					s.Id = impl[i]
					s.Activated = true
					s.EnforcementHeight = uint64(r.Intn(2))
				}
			}
			cfg.SporkConfig.Sporks = append(cfg.SporkConfig.Sporks, s)
		}
	}

	// declared supplies = what the blocks give
	given := map[types.ZenonTokenStandard]*big.Int{}
	for _, b := range cfg.GenesisBlocks.Blocks {
		for z, a := range b.BalanceList {
			if given[z] == nil {
				given[z] = new(big.Int)
			}
			given[z].Add(given[z], a)
		}
	}
	for _, t := range toks {
		t.info.TokenStandard = t.zts
		t.info.TotalSupply = new(big.Int).Set(given[t.zts])
		t.info.MaxSupply = new(big.Int).Add(given[t.zts], c20Amount(r))
		cfg.TokenConfig.Tokens = append(cfg.TokenConfig.Tokens, t.info)
	}

	// the generation order of every list is itself arbitrary
	c20Permute(cfg, r, -1)
	return out
}

// c20ContractHolding gives a checked contract exactly `sum` of its one permitted token.
func c20ContractHolding(r *rand.Rand, cfg *genesis.GenesisConfig, addr types.Address, zts types.ZenonTokenStandard, sum *big.Int) {
	if sum.Sign() != 0 {
		c20AddBalance(cfg, addr, zts, sum)
		return
	}
	switch r.Intn(3) {
	case 0:
		c20AddBalance(cfg, addr, zts, big.NewInt(0))
	case 1:
		cfg.GenesisBlocks.Blocks = append(cfg.GenesisBlocks.Blocks, &genesis.GenesisBlockConfig{Address: addr, BalanceList: map[types.ZenonTokenStandard]*big.Int{}})
	}
}

// ---------------------------------------------------------------------------
// deep copy, permutation, JSON

func c20Big(v *big.Int) *big.Int {
	if v == nil {
		return nil
	}
	return new(big.Int).Set(v)
}

// c20Clone makes a deep copy (nil sections, nil entries and nil amounts are preserved).
func c20Clone(g *genesis.GenesisConfig) *genesis.GenesisConfig {
	n := &genesis.GenesisConfig{ChainIdentifier: g.ChainIdentifier, ExtraData: g.ExtraData, GenesisTimestampSec: g.GenesisTimestampSec}
	if g.SporkAddress != nil {
		a := *g.SporkAddress
		n.SporkAddress = &a
	}
	if g.PillarConfig != nil {
		pc := &genesis.PillarContractConfig{}
		for _, p := range g.PillarConfig.Pillars {
			if p == nil {
				pc.Pillars = append(pc.Pillars, nil)
				continue
			}
			q := *p
			q.Amount = c20Big(p.Amount)
			pc.Pillars = append(pc.Pillars, &q)
		}
		for _, d := range g.PillarConfig.Delegations {
			q := *d
			pc.Delegations = append(pc.Delegations, &q)
		}
		for _, l := range g.PillarConfig.LegacyEntries {
			q := *l
			pc.LegacyEntries = append(pc.LegacyEntries, &q)
		}
		n.PillarConfig = pc
	}
	if g.TokenConfig != nil {
		tc := &genesis.TokenContractConfig{}
		for _, t := range g.TokenConfig.Tokens {
			if t == nil {
				tc.Tokens = append(tc.Tokens, nil)
				continue
			}
			q := *t
			q.TotalSupply = c20Big(t.TotalSupply)
			q.MaxSupply = c20Big(t.MaxSupply)
			tc.Tokens = append(tc.Tokens, &q)
		}
		n.TokenConfig = tc
	}
	if g.PlasmaConfig != nil {
		pc := &genesis.PlasmaContractConfig{}
		for _, f := range g.PlasmaConfig.Fusions {
			if f == nil {
				pc.Fusions = append(pc.Fusions, nil)
				continue
			}
			q := *f
			q.Amount = c20Big(f.Amount)
			pc.Fusions = append(pc.Fusions, &q)
		}
		n.PlasmaConfig = pc
	}
	if g.SwapConfig != nil {
		sc := &genesis.SwapContractConfig{}
		for _, e := range g.SwapConfig.Entries {
			if e == nil {
				sc.Entries = append(sc.Entries, nil)
				continue
			}
			q := *e
			q.Znn = c20Big(e.Znn)
			q.Qsr = c20Big(e.Qsr)
			sc.Entries = append(sc.Entries, &q)
		}
		n.SwapConfig = sc
	}
	if g.SporkConfig != nil {
		sc := &genesis.SporkConfig{}
		for _, s := range g.SporkConfig.Sporks {
			q := *s
			sc.Sporks = append(sc.Sporks, &q)
		}
		n.SporkConfig = sc
	}
	if g.GenesisBlocks != nil {
		bc := &genesis.GenesisBlocksConfig{}
		for _, b := range g.GenesisBlocks.Blocks {
			if b == nil {
				bc.Blocks = append(bc.Blocks, nil)
				continue
			}
			q := &genesis.GenesisBlockConfig{Address: b.Address}
			if b.BalanceList != nil {
				q.BalanceList = make(map[types.ZenonTokenStandard]*big.Int, len(b.BalanceList))
				for z, a := range b.BalanceList {
					q.BalanceList[z] = c20Big(a)
				}
			}
			bc.Blocks = append(bc.Blocks, q)
		}
		n.GenesisBlocks = bc
	}
	return n
}

// c20Permute shuffles list number `which` (index into c20ListNames) in place, or all lists when which < 0.
// It reports whether any list of length >= 2 was really reordered.
func c20Permute(g *genesis.GenesisConfig, r *rand.Rand, which int) bool {
	moved := false
	shuffle := func(n int, swap func(i, j int)) {
		if n < 2 {
			return
		}
		perm := r.Perm(n)
		identity := true
		for i, p := range perm {
			if i != p {
				identity = false
			}
		}
		if identity {
			perm[0], perm[1] = perm[1], perm[0]
		}
		// apply perm through successive swaps (selection of the wanted element for each position)
		pos := make([]int, n) // pos[e] = current index of original element e
		at := make([]int, n)  // at[i] = original element at index i
		for i := range pos {
			pos[i], at[i] = i, i
		}
		for i := 0; i < n; i++ {
			j := pos[perm[i]]
			if i != j {
				swap(i, j)
				ei, ej := at[i], at[j]
				at[i], at[j] = ej, ei
				pos[ei], pos[ej] = j, i
			}
		}
		moved = true
	}
	do := func(k int) bool { return which < 0 || which == k }
	if g.PillarConfig != nil {
		pc := g.PillarConfig
		if do(0) {
			shuffle(len(pc.Pillars), func(i, j int) { pc.Pillars[i], pc.Pillars[j] = pc.Pillars[j], pc.Pillars[i] })
		}
		if do(1) {
			shuffle(len(pc.Delegations), func(i, j int) { pc.Delegations[i], pc.Delegations[j] = pc.Delegations[j], pc.Delegations[i] })
		}
		if do(2) {
			shuffle(len(pc.LegacyEntries), func(i, j int) { pc.LegacyEntries[i], pc.LegacyEntries[j] = pc.LegacyEntries[j], pc.LegacyEntries[i] })
		}
	}
	if g.TokenConfig != nil && do(3) {
		l := g.TokenConfig.Tokens
		shuffle(len(l), func(i, j int) { l[i], l[j] = l[j], l[i] })
	}
	if g.PlasmaConfig != nil && do(4) {
		l := g.PlasmaConfig.Fusions
		shuffle(len(l), func(i, j int) { l[i], l[j] = l[j], l[i] })
	}
	if g.SwapConfig != nil && do(5) {
		l := g.SwapConfig.Entries
		shuffle(len(l), func(i, j int) { l[i], l[j] = l[j], l[i] })
	}
	if g.SporkConfig != nil && do(6) {
		l := g.SporkConfig.Sporks
		shuffle(len(l), func(i, j int) { l[i], l[j] = l[j], l[i] })
	}
	if g.GenesisBlocks != nil && do(7) {
		l := g.GenesisBlocks.Blocks
		shuffle(len(l), func(i, j int) { l[i], l[j] = l[j], l[i] })
	}
	return moved
}

// c20ShuffleJSON re-encodes a JSON document with the members of every object in a random order and
// random insignificant white space. Numbers are kept as their original text.
func c20ShuffleJSON(data []byte, r *rand.Rand) ([]byte, error) {
	dec := json.NewDecoder(bytes.NewReader(data))
	dec.UseNumber()
	var v interface{}
	if err := dec.Decode(&v); err != nil {
		return nil, err
	}
	var buf bytes.Buffer
	ws := func() {
		switch r.Intn(6) {
		case 0:
			buf.WriteByte(' ')
		case 1:
			buf.WriteString("\n  ")
		case 2:
			buf.WriteByte('\t')
		}
	}
	var enc func(v interface{}) error
	enc = func(v interface{}) error {
		switch t := v.(type) {
		case map[string]interface{}:
			keys := make([]string, 0, len(t))
			for k := range t {
				keys = append(keys, k)
			}
			sort.Strings(keys)
			r.Shuffle(len(keys), func(i, j int) { keys[i], keys[j] = keys[j], keys[i] })
			buf.WriteByte('{')
			for i, k := range keys {
				if i > 0 {
					buf.WriteByte(',')
				}
				ws()
				kb, _ := json.Marshal(k)
				buf.Write(kb)
				ws()
				buf.WriteByte(':')
				ws()
				if err := enc(t[k]); err != nil {
					return err
				}
			}
			ws()
			buf.WriteByte('}')
		case []interface{}:
			buf.WriteByte('[')
			for i, e := range t {
				if i > 0 {
					buf.WriteByte(',')
				}
				ws()
				if err := enc(e); err != nil {
					return err
				}
			}
			ws()
			buf.WriteByte(']')
		case json.Number:
			buf.WriteString(t.String())
		default:
			b, err := json.Marshal(t)
			if err != nil {
				return err
			}
			buf.Write(b)
		}
		return nil
	}
	if err := enc(v); err != nil {
		return nil, err
	}
	ws()
	return buf.Bytes(), nil
}

func c20Sha(b []byte) string {
	s := sha256.Sum256(b)
	return hex.EncodeToString(s[:])
}

func c20CfgDigest(g *genesis.GenesisConfig) string {
	data, err := json.Marshal(g)
	if err != nil {
		return "marshal-error: " + err.Error()
	}
	return c20Sha(data)
}

// ---------------------------------------------------------------------------
// fingerprints

type c20FP struct {
	CfgDigest string            `json:"cfg_digest,omitempty"`
	Hash      string            `json:"hash"`
	Momentum  string            `json:"momentum"`       // hex of the serialized genesis momentum
	Changes   string            `json:"changes_digest"` // sha256 of the printed genesis change set
	NChanges  int               `json:"changes_lines"`
	State     map[string]string `json:"state,omitempty"` // frontier dump of a node opened with this genesis
	Pid       int               `json:"pid,omitempty"`
	Err       string            `json:"error,omitempty"`

	changesDump string
}

// c20Build constructs the genesis and fingerprints it; panics of the code under test are returned.
func c20Build(cfg *genesis.GenesisConfig) (gen store.Genesis, fp *c20FP, panicked interface{}) {
	defer func() {
		if r := recover(); r != nil {
			gen, fp, panicked = nil, nil, r
		}
	}()
	gen = genesis.NewGenesis(cfg)
	fp = c20FPOf(gen)
	return gen, fp, nil
}

func c20FPOf(gen store.Genesis) *c20FP {
	m := gen.GetGenesisMomentum()
	ser, err := m.Serialize()
	if err != nil {
		panic(err)
	}
	fp := &c20FP{Hash: m.Hash.String(), Momentum: hex.EncodeToString(ser)}
	if tx := gen.GetGenesisTransaction(); tx != nil && tx.Changes != nil {
		fp.changesDump = db.DebugPatch(tx.Changes)
		fp.Changes = c20Sha([]byte(fp.changesDump))
		fp.NChanges = strings.Count(fp.changesDump, "\n")
	}
	return fp
}

// c20OpenState opens a full node on a fresh directory with the genesis, dumps the frontier and reads the
// configured balances back through the store API. The genesis object is consumed (its change set is stolen).
func c20OpenState(c *fw.C, label string, gen store.Genesis, cfg *genesis.GenesisConfig) (state map[string]string, mismatch []string, panicked interface{}) {
	dir := c.ScratchDir(label)
	defer os.RemoveAll(dir)
	return c20OpenStateIn(filepath.Join(dir, "db"), gen, cfg)
}

func c20OpenStateIn(dir string, gen store.Genesis, cfg *genesis.GenesisConfig) (state map[string]string, mismatch []string, panicked interface{}) {
	var n *simnet.Node
	defer func() {
		if r := recover(); r != nil {
			state, panicked = nil, r
		}
		if n != nil {
			func() {
				defer func() { _ = recover() }()
				n.Destroy()
			}()
		}
	}()
	n = simnet.Open("c20", dir, gen, nil)
	state = n.DumpFrontier()
	st := n.Chain.GetFrontierMomentumStore()
	first, err := st.GetMomentumByHeight(1)
	if err != nil || first == nil {
		mismatch = append(mismatch, fmt.Sprintf("height-1 momentum unreadable: %v", err))
	} else if first.Hash != gen.GetGenesisMomentum().Hash {
		mismatch = append(mismatch, fmt.Sprintf("height-1 momentum %v is not the genesis momentum %v", first.Hash, gen.GetGenesisMomentum().Hash))
	}
	if cfg != nil {
		for _, b := range cfg.GenesisBlocks.Blocks {
			as := st.GetAccountStore(b.Address)
			for z, want := range b.BalanceList {
				got, err := as.GetBalance(z)
				if err != nil || got == nil || got.Cmp(want) != 0 {
					mismatch = append(mismatch, fmt.Sprintf("balance of %v in %v: configured %v, node has %v (err %v)", b.Address, z, want, got, err))
				}
			}
		}
	}
	return state, mismatch, nil
}

func c20StateDigest(state map[string]string) string {
	keys := make([]string, 0, len(state))
	for k := range state {
		keys = append(keys, k)
	}
	sort.Strings(keys)
	h := sha256.New()
	for _, k := range keys {
		h.Write([]byte(k))
		h.Write([]byte{'='})
		h.Write([]byte(state[k]))
		h.Write([]byte{'\n'})
	}
	return hex.EncodeToString(h.Sum(nil))
}

// c20Compare reports every difference between the base fingerprint and another construction.
func c20Compare(c *fw.C, how string, base, other *c20FP, extra map[string]interface{}) bool {
	same := true
	report := func(field string, detail map[string]interface{}) {
		same = false
		for k, v := range extra {
			detail[k] = v
		}
		detail["construction"] = how
		c.Violation(fmt.Sprintf("genesis %s differs: %s", field, how), detail)
	}
	c.Eval(1)
	if base.Hash != other.Hash {
		report("hash", map[string]interface{}{"base_hash": base.Hash, "other_hash": other.Hash})
	}
	if base.Momentum != other.Momentum {
		report("momentum-content", map[string]interface{}{"base_momentum": base.Momentum, "other_momentum": other.Momentum})
	}
	if base.Changes != other.Changes {
		d := map[string]interface{}{"base_changes_digest": base.Changes, "other_changes_digest": other.Changes, "base_lines": base.NChanges, "other_lines": other.NChanges}
		if base.changesDump != "" && other.changesDump != "" {
			d["first_differences"] = c20DiffLines(base.changesDump, other.changesDump, 6)
		}
		report("change-set", d)
	}
	if base.State != nil && other.State != nil {
		c.Eval(1)
		if diffs := simnet.DiffDumps(base.State, other.State, 8); len(diffs) > 0 {
			report("initial-state", map[string]interface{}{"base_keys": len(base.State), "other_keys": len(other.State), "first_differences": diffs})
		}
	}
	return same
}

func c20DiffLines(a, b string, max int) []string {
	la, lb := strings.Split(a, "\n"), strings.Split(b, "\n")
	inA := map[string]bool{}
	for _, l := range la {
		inA[l] = true
	}
	inB := map[string]bool{}
	for _, l := range lb {
		inB[l] = true
	}
	var out []string
	for i, l := range la {
		if !inB[l] && len(out) < max {
			out = append(out, fmt.Sprintf("only in base (line %d): %s", i, c20Trunc(l)))
		}
	}
	for i, l := range lb {
		if !inA[l] && len(out) < 2*max {
			out = append(out, fmt.Sprintf("only in other (line %d): %s", i, c20Trunc(l)))
		}
	}
	if len(out) == 0 {
		out = append(out, "same lines in a different order")
	}
	return out
}

func c20Trunc(s string) string {
	if len(s) > 160 {
		return s[:160] + "..."
	}
	return s
}

// ---------------------------------------------------------------------------
// cfg cases: one configuration, many constructions

type c20FreshReq struct {
	Seed  int64  `json:"seed"`
	Label string `json:"label"`
	Dir   string `json:"dir"`
	Out   string `json:"out"`
}

func c20CfgSummary(g *genesis.GenesisConfig) map[string]interface{} {
	s := map[string]interface{}{
		"chain_identifier": g.ChainIdentifier, "timestamp": g.GenesisTimestampSec, "extra_data_len": len(g.ExtraData),
		"spork_section": g.SporkConfig != nil,
	}
	if g.PillarConfig != nil {
		s["pillars"], s["delegations"], s["legacy_entries"] = len(g.PillarConfig.Pillars), len(g.PillarConfig.Delegations), len(g.PillarConfig.LegacyEntries)
	}
	if g.TokenConfig != nil {
		s["tokens"] = len(g.TokenConfig.Tokens)
	}
	if g.PlasmaConfig != nil {
		s["fusions"] = len(g.PlasmaConfig.Fusions)
	}
	if g.SwapConfig != nil {
		s["swap_entries"] = len(g.SwapConfig.Entries)
	}
	if g.SporkConfig != nil {
		s["sporks"] = len(g.SporkConfig.Sporks)
	}
	if g.GenesisBlocks != nil {
		s["blocks"] = len(g.GenesisBlocks.Blocks)
	}
	return s
}

func c20ConfigJSON(g *genesis.GenesisConfig) json.RawMessage {
	data, err := json.Marshal(g)
	if err != nil {
		data, _ = json.Marshal("marshal error: " + err.Error())
	}
	return data
}

// c20Accepts runs CheckGenesis and converts a panic into a value.
func c20Check(g *genesis.GenesisConfig) (err error, panicked interface{}) {
	defer func() {
		if r := recover(); r != nil {
			err, panicked = nil, r
		}
	}()
	return genesis.CheckGenesis(g), nil
}

// c20ReadFile runs ReadGenesisConfigFromFile and converts an escaping panic into a value.
func c20ReadFile(path string) (gen store.Genesis, err error, panicked interface{}) {
	defer func() {
		if r := recover(); r != nil {
			gen, err, panicked = nil, nil, r
		}
	}()
	gen, err = genesis.ReadGenesisConfigFromFile(path)
	return gen, err, nil
}

func c20RunCfg(c *fw.C, caseID string) {
	r := c.Rand(caseID)
	g := c20Generate(r, false, false)
	cfg := g.Cfg
	summary := c20CfgSummary(cfg)
	extra := map[string]interface{}{"config_summary": summary, "config": c20ConfigJSON(cfg)}

	if err, p := c20Check(cfg); err != nil || p != nil {
		c.Inconclusive(fmt.Sprintf("generated configuration not accepted by CheckGenesis (err=%v panic=%v)", err, p))
		return
	}

	// base construction
	baseGen, base, p := c20Build(c20Clone(cfg))
	if p != nil {
		c.Inconclusive(fmt.Sprintf("NewGenesis panicked on the generated configuration: %v", p))
		return
	}
	base.CfgDigest = c20CfgDigest(cfg)
	c.Eval(1)

	// fresh process: started first so that it runs while this process does the rest
	scratch := c.ScratchDir(caseID)
	defer os.RemoveAll(scratch)
	reqPath, outPath := filepath.Join(scratch, "fresh-req.json"), filepath.Join(scratch, "fresh-out.json")
	req, _ := json.Marshal(&c20FreshReq{Seed: c.Seed, Label: caseID, Dir: filepath.Join(scratch, "fresh-db"), Out: outPath})
	_ = os.WriteFile(reqPath, req, 0o644)
	type freshResult struct {
		out []byte
		err error
	}
	freshDone := make(chan freshResult, 1)
	go func() {
		exe, err := os.Executable()
		if err != nil {
			freshDone <- freshResult{nil, err}
			return
		}
		ctx, cancel := context.WithTimeout(context.Background(), 5*time.Minute)
		defer cancel()
		cmd := exec.CommandContext(ctx, exe)
		cmd.Env = append(os.Environ(), c20FreshEnv+"="+reqPath)
		out, err := cmd.CombinedOutput()
		freshDone <- freshResult{out, err}
	}()

	// same process, again: from a copy, and twice from one and the same configuration object
	repeatable := true
	if _, again, p := c20Build(c20Clone(cfg)); p != nil {
		repeatable = false
		c.Violation("genesis construction panics on repetition: same process", map[string]interface{}{"panic": fmt.Sprint(p), "config": extra["config"]})
	} else {
		repeatable = c20Compare(c, "same process, second construction", base, again, extra)
	}
	shared := c20Clone(cfg)
	if _, _, p := c20Build(shared); p == nil {
		if _, again, p := c20Build(shared); p != nil {
			c.Violation("genesis construction panics on repetition: same configuration object", map[string]interface{}{"panic": fmt.Sprint(p), "config": extra["config"]})
		} else {
			c20Compare(c, "same configuration object, second construction", base, again, extra)
		}
	}

	// every unordered list permuted on its own (pointless when plain repetition already differs: a
	// difference could not be attributed to the list)
	for k, name := range c20ListNames {
		if !repeatable {
			break
		}
		pc := c20Clone(cfg)
		if !c20Permute(pc, c.Rand(caseID+"/perm/"+name), k) {
			continue
		}
		if c20CfgDigest(pc) == base.CfgDigest {
			continue // cannot happen for a list of >= 2 distinct entries
		}
		_, fp, p := c20Build(pc)
		if p != nil {
			c.Violation("genesis construction panics: permuted "+name, map[string]interface{}{"panic": fmt.Sprint(p), "config": extra["config"]})
			continue
		}
		c.Count("permuted_"+name, 1)
		c20Compare(c, "permuted "+name, base, fp, extra)
	}

	// all lists permuted, with a node
	allCfg := c20Clone(cfg)
	c20Permute(allCfg, c.Rand(caseID+"/perm/all"), -1)
	allGen, all, p := c20Build(c20Clone(allCfg))
	if p != nil {
		c.Violation("genesis construction panics: all lists permuted", map[string]interface{}{"panic": fmt.Sprint(p), "config": extra["config"]})
	}

	// JSON file with shuffled members (of the permuted configuration)
	var viaFile store.Genesis
	var file *c20FP
	plain, err := json.Marshal(allCfg)
	if err != nil {
		c.Inconclusive("cannot marshal configuration: " + err.Error())
	} else if shuffled, err := c20ShuffleJSON(plain, c.Rand(caseID+"/json")); err != nil {
		c.Inconclusive("cannot re-encode configuration JSON: " + err.Error())
	} else {
		path := filepath.Join(scratch, "genesis.json")
		_ = os.WriteFile(path, shuffled, 0o644)
		gen, err, p := c20ReadFile(path)
		switch {
		case p != nil:
			c.Violation("ReadGenesisConfigFromFile panics on a consistent configuration", map[string]interface{}{"panic": fmt.Sprint(p), "config": extra["config"]})
		case err != nil || gen == nil:
			c.Violation("consistent configuration refused when read from file", map[string]interface{}{"error": fmt.Sprint(err), "nil_genesis": gen == nil, "config": extra["config"], "accepted_by": "CheckGenesis on the in-memory configuration"})
		default:
			viaFile = gen
			file = c20FPOf(gen)
			c.Count("json_file_constructions", 1)
		}
	}

	// full initial state of base / permuted / file constructions
	st, mismatch, p := c20OpenState(c, caseID+"-base", baseGen, cfg)
	if p != nil {
		c.Inconclusive(fmt.Sprintf("node does not open on the generated configuration: %v", p))
	} else {
		base.State = st
		c.Count("node_opens", 1)
		c.Eval(1)
		if len(mismatch) > 0 {
			c.Violation("initial state does not reflect the configuration", map[string]interface{}{"mismatches": mismatch, "config": extra["config"]})
		}
	}
	if all != nil {
		if base.State != nil {
			if st, _, p := c20OpenState(c, caseID+"-perm", allGen, nil); p != nil {
				c.Violation("node opens on a configuration but not on its permutation", map[string]interface{}{"panic": fmt.Sprint(p), "config": extra["config"]})
			} else {
				all.State = st
				c.Count("node_opens", 1)
			}
		}
		c20Compare(c, "all lists permuted", base, all, extra)
	}
	if file != nil {
		if base.State != nil {
			if st, _, p := c20OpenState(c, caseID+"-file", viaFile, nil); p != nil {
				c.Violation("node opens on a configuration but not on its JSON file", map[string]interface{}{"panic": fmt.Sprint(p), "config": extra["config"]})
			} else {
				file.State = st
				c.Count("node_opens", 1)
			}
		}
		c20Compare(c, "shuffled JSON file of the permuted configuration", base, file, extra)
	}

	// fresh process
	fr := <-freshDone
	var fresh c20FP
	data, rerr := os.ReadFile(outPath)
	switch {
	case rerr != nil || json.Unmarshal(data, &fresh) != nil:
		c.Inconclusive(fmt.Sprintf("fresh process produced no fingerprint (exit %v): %s", fr.err, c20Trunc(string(fr.out))))
	case fresh.Err != "":
		c.Inconclusive("fresh process failed: " + fresh.Err)
	case fresh.CfgDigest != base.CfgDigest:
		c.Inconclusive("generator diverged between processes (harness defect, not a finding)")
	case fresh.Pid == os.Getpid():
		c.Inconclusive("fresh process reported this process's pid")
	default:
		c.Count("fresh_process_constructions", 1)
		if base.State == nil {
			fresh.State = nil
		}
		c20Compare(c, "fresh process", base, &fresh, extra)
	}

	summary["hash"] = base.Hash
	summary["state_keys"] = len(base.State)
	summary["change_lines"] = base.NChanges
	c.Sample(summary)
	c.Distinct("cfg:" + base.Hash)
	c.SetAdd("pillar_counts", strconv.Itoa(len(cfg.PillarConfig.Pillars)))
	c.SetAdd("token_counts", strconv.Itoa(len(cfg.TokenConfig.Tokens)))
	if cfg.SporkConfig == nil {
		c.SetAdd("spork_counts", "nil-section")
	} else {
		c.SetAdd("spork_counts", strconv.Itoa(len(cfg.SporkConfig.Sporks)))
	}
}

// c20FreshMain is the whole life of the fresh helper process.
func c20FreshMain(reqPath string) int {
	var req c20FreshReq
	data, err := os.ReadFile(reqPath)
	if err != nil || json.Unmarshal(data, &req) != nil {
		fmt.Fprintln(os.Stderr, "c20 fresh: bad request", err)
		return 3
	}
	res := &c20FP{Pid: os.Getpid()}
	func() {
		defer func() {
			if r := recover(); r != nil {
				res.Err = fmt.Sprintf("panic: %v", r)
			}
		}()
		simnet.Setup()
		r := rand.New(rand.NewSource(fw.SeedFor(req.Seed, req.Label)))
		g := c20Generate(r, false, false)
		gen, fp, p := c20Build(c20Clone(g.Cfg))
		if p != nil {
			res.Err = fmt.Sprintf("NewGenesis panicked: %v", p)
			return
		}
		fp.Pid = res.Pid
		fp.CfgDigest = c20CfgDigest(g.Cfg)
		st, _, p := c20OpenStateIn(req.Dir, gen, nil)
		if p != nil {
			fp.Err = fmt.Sprintf("node open panicked: %v", p)
		}
		fp.State = st
		res = fp
	}()
	out, _ := json.Marshal(res)
	if err := os.WriteFile(req.Out+".tmp", out, 0o644); err != nil {
		return 3
	}
	if err := os.Rename(req.Out+".tmp", req.Out); err != nil {
		return 3
	}
	return 0
}

// ---------------------------------------------------------------------------
// pert cases: inconsistent configurations must be refused

type c20Pert struct {
	class string
	// apply edits the clone and reports whether the class was applicable; note describes the edit
	apply func(g *genesis.GenesisConfig, r *rand.Rand) (note string, ok bool)
}

// c20UserEntry picks a (block, token) of an unrestricted account with amount >= min; deterministic for a given r.
func c20UserEntry(g *genesis.GenesisConfig, r *rand.Rand, min int64, only *types.ZenonTokenStandard) (*genesis.GenesisBlockConfig, types.ZenonTokenStandard, bool) {
	type cand struct {
		b *genesis.GenesisBlockConfig
		z types.ZenonTokenStandard
	}
	var l []cand
	for _, b := range g.GenesisBlocks.Blocks {
		if c20Restricted[b.Address] {
			continue
		}
		for z, a := range b.BalanceList {
			if only != nil && z != *only {
				continue
			}
			if a != nil && a.Cmp(big.NewInt(min)) >= 0 {
				l = append(l, cand{b, z})
			}
		}
	}
	if len(l) == 0 {
		return nil, types.ZeroTokenStandard, false
	}
	sort.Slice(l, func(i, j int) bool {
		if c := bytes.Compare(l[i].b.Address[:], l[j].b.Address[:]); c != 0 {
			return c < 0
		}
		return bytes.Compare(l[i].z[:], l[j].z[:]) < 0
	})
	p := l[r.Intn(len(l))]
	return p.b, p.z, true
}

// c20Part returns a random X with 1 <= X <= a.
func c20Part(r *rand.Rand, a *big.Int) *big.Int {
	if r.Intn(3) == 0 || a.Cmp(big.NewInt(1)) <= 0 {
		return big.NewInt(1)
	}
	if r.Intn(3) == 0 {
		return new(big.Int).Set(a)
	}
	x := new(big.Int).Rand(r, a)
	return x.Add(x, big.NewInt(1))
}

// c20Move takes 1..amount of a token from an unrestricted account and gives it to `to` (supplies stay right).
func c20Move(g *genesis.GenesisConfig, r *rand.Rand, zts *types.ZenonTokenStandard, to types.Address) (string, bool) {
	b, z, ok := c20UserEntry(g, r, 1, zts)
	if !ok {
		return "", false
	}
	x := c20Part(r, b.BalanceList[z])
	b.BalanceList[z].Sub(b.BalanceList[z], x)
	c20AddBalance(g, to, z, x)
	return fmt.Sprintf("moved %v of %v from %v to %v", x, z, b.Address, to), true
}

func c20Sum(g *genesis.GenesisConfig, what string) *big.Int {
	s := new(big.Int)
	switch what {
	case "pillars":
		for _, p := range g.PillarConfig.Pillars {
			s.Add(s, p.Amount)
		}
	case "fusions":
		for _, f := range g.PlasmaConfig.Fusions {
			s.Add(s, f.Amount)
		}
	}
	return s
}

func c20RemoveBlock(g *genesis.GenesisConfig, addr types.Address) bool {
	for i, b := range g.GenesisBlocks.Blocks {
		if b.Address == addr {
			g.GenesisBlocks.Blocks = append(g.GenesisBlocks.Blocks[:i:i], g.GenesisBlocks.Blocks[i+1:]...)
			return true
		}
	}
	return false
}

func c20Token(g *genesis.GenesisConfig, z types.ZenonTokenStandard) *definition.TokenInfo {
	for _, t := range g.TokenConfig.Tokens {
		if t.TokenStandard == z {
			return t
		}
	}
	return nil
}

func c20Perturbations() []c20Pert {
	znn, qsr := types.ZnnTokenStandard, types.QsrTokenStandard
	delta := func(v *big.Int, d int64) { v.Add(v, big.NewInt(d)) }
	var l []c20Pert
	for _, d := range []int64{+1, -1} {
		d := d
		sign := "+1"
		if d < 0 {
			sign = "-1"
		}
		l = append(l,
			c20Pert{"account-balance" + sign, func(g *genesis.GenesisConfig, r *rand.Rand) (string, bool) {
				min := int64(0)
				if d < 0 {
					min = 1
				}
				b, z, ok := c20UserEntry(g, r, min, nil)
				if !ok {
					return "", false
				}
				delta(b.BalanceList[z], d)
				return fmt.Sprintf("%v %v %s", b.Address, z, sign), true
			}},
			c20Pert{"token-supply" + sign, func(g *genesis.GenesisConfig, r *rand.Rand) (string, bool) {
				t := g.TokenConfig.Tokens[r.Intn(len(g.TokenConfig.Tokens))]
				if d < 0 && t.TotalSupply.Sign() == 0 {
					return "", false
				}
				delta(t.TotalSupply, d)
				return fmt.Sprintf("TotalSupply of %v %s", t.TokenStandard, sign), true
			}},
			c20Pert{"pillar-collateral" + sign, func(g *genesis.GenesisConfig, r *rand.Rand) (string, bool) {
				p := g.PillarConfig.Pillars[r.Intn(len(g.PillarConfig.Pillars))]
				if d < 0 && p.Amount.Sign() == 0 {
					return "", false
				}
				if c20FindBlock(g, types.PillarContract) == nil {
					return "", false // collateral sum is 0 and 0+1 is still unbacked, but that is the "unbacked" class below
				}
				delta(p.Amount, d)
				return fmt.Sprintf("Amount of pillar %q %s", p.Name, sign), true
			}},
			c20Pert{"fusion-amount" + sign, func(g *genesis.GenesisConfig, r *rand.Rand) (string, bool) {
				if len(g.PlasmaConfig.Fusions) == 0 || c20FindBlock(g, types.PlasmaContract) == nil {
					return "", false
				}
				f := g.PlasmaConfig.Fusions[r.Intn(len(g.PlasmaConfig.Fusions))]
				if d < 0 && f.Amount.Sign() == 0 {
					return "", false
				}
				delta(f.Amount, d)
				return fmt.Sprintf("Amount of fusion %v/%v %s", f.Owner, f.Id, sign), true
			}},
			c20Pert{"pillar-contract-balance" + sign, func(g *genesis.GenesisConfig, r *rand.Rand) (string, bool) {
				b := c20FindBlock(g, types.PillarContract)
				if b == nil || b.BalanceList[znn] == nil || (d < 0 && b.BalanceList[znn].Sign() == 0) {
					return "", false
				}
				delta(b.BalanceList[znn], d)
				return "pillar contract ZNN " + sign, true
			}},
			c20Pert{"plasma-contract-balance" + sign, func(g *genesis.GenesisConfig, r *rand.Rand) (string, bool) {
				b := c20FindBlock(g, types.PlasmaContract)
				if b == nil || b.BalanceList[qsr] == nil || (d < 0 && b.BalanceList[qsr].Sign() == 0) {
					return "", false
				}
				delta(b.BalanceList[qsr], d)
				return "plasma contract QSR " + sign, true
			}},
		)
	}
	l = append(l,
		c20Pert{"pillar-added-without-collateral", func(g *genesis.GenesisConfig, r *rand.Rand) (string, bool) {
			if c20FindBlock(g, types.PillarContract) == nil {
				return "", false
			}
			a := c20RandAddr(r)
			g.PillarConfig.Pillars = append(g.PillarConfig.Pillars, &definition.PillarInfo{Name: "unbacked-" + c20Name(r, 3, 8), BlockProducingAddress: a,
				RewardWithdrawAddress: a, StakeAddress: a, Amount: new(big.Int).Set(constants.PillarStakeAmount), PillarType: definition.LegacyPillarType})
			return "one more pillar with the standard stake, balances untouched", true
		}},
		c20Pert{"pillar-collateral-moved-to-account", func(g *genesis.GenesisConfig, r *rand.Rand) (string, bool) {
			b := c20FindBlock(g, types.PillarContract)
			if b == nil || b.BalanceList[znn] == nil || b.BalanceList[znn].Sign() <= 0 {
				return "", false
			}
			x := c20Part(r, b.BalanceList[znn])
			b.BalanceList[znn].Sub(b.BalanceList[znn], x)
			to := c20RandAddr(r)
			if ub, _, ok := c20UserEntry(g, r, 0, nil); ok {
				to = ub.Address
			}
			c20AddBalance(g, to, znn, x)
			return fmt.Sprintf("%v ZNN of the pillar contract given to %v instead (supply unchanged)", x, to), true
		}},
		c20Pert{"fusion-added-without-qsr", func(g *genesis.GenesisConfig, r *rand.Rand) (string, bool) {
			if c20FindBlock(g, types.PlasmaContract) == nil {
				return "", false
			}
			g.PlasmaConfig.Fusions = append(g.PlasmaConfig.Fusions, &definition.FusionInfo{Owner: c20RandAddr(r), Id: c20RandHash(r),
				Amount: big.NewInt(1 + r.Int63n(1000000000000)), Beneficiary: c20RandAddr(r)})
			return "one more fusion entry, balances untouched", true
		}},
		c20Pert{"fusion-qsr-moved-to-account", func(g *genesis.GenesisConfig, r *rand.Rand) (string, bool) {
			b := c20FindBlock(g, types.PlasmaContract)
			if b == nil || b.BalanceList[qsr] == nil || b.BalanceList[qsr].Sign() <= 0 {
				return "", false
			}
			x := c20Part(r, b.BalanceList[qsr])
			b.BalanceList[qsr].Sub(b.BalanceList[qsr], x)
			to := c20RandAddr(r)
			if ub, _, ok := c20UserEntry(g, r, 0, nil); ok {
				to = ub.Address
			}
			c20AddBalance(g, to, qsr, x)
			return fmt.Sprintf("%v QSR of the plasma contract given to %v instead (supply unchanged)", x, to), true
		}},
		c20Pert{"swap-contract-holds-znn", func(g *genesis.GenesisConfig, r *rand.Rand) (string, bool) {
			return c20Move(g, r, &znn, types.SwapContract)
		}},
		c20Pert{"swap-contract-holds-qsr", func(g *genesis.GenesisConfig, r *rand.Rand) (string, bool) {
			return c20Move(g, r, &qsr, types.SwapContract)
		}},
		c20Pert{"swap-contract-holds-any-token", func(g *genesis.GenesisConfig, r *rand.Rand) (string, bool) {
			return c20Move(g, r, nil, types.SwapContract)
		}},
		c20Pert{"pillar-contract-holds-foreign-token", func(g *genesis.GenesisConfig, r *rand.Rand) (string, bool) {
			if c20FindBlock(g, types.PillarContract) == nil {
				return "", false
			}
			return c20Move(g, r, &qsr, types.PillarContract)
		}},
		c20Pert{"plasma-contract-holds-foreign-token", func(g *genesis.GenesisConfig, r *rand.Rand) (string, bool) {
			if c20FindBlock(g, types.PlasmaContract) == nil {
				return "", false
			}
			return c20Move(g, r, &znn, types.PlasmaContract)
		}},
		c20Pert{"held-token-not-declared", func(g *genesis.GenesisConfig, r *rand.Rand) (string, bool) {
			i := r.Intn(len(g.TokenConfig.Tokens))
			z := g.TokenConfig.Tokens[i].TokenStandard
			if g.TokenConfig.Tokens[i].TotalSupply.Sign() == 0 {
				return "", false // nothing but zero balances: arguably still consistent
			}
			g.TokenConfig.Tokens = append(g.TokenConfig.Tokens[:i:i], g.TokenConfig.Tokens[i+1:]...)
			return fmt.Sprintf("declaration of %v removed, balances kept", z), true
		}},
		c20Pert{"declared-token-not-held", func(g *genesis.GenesisConfig, r *rand.Rand) (string, bool) {
			z := c20RandZts(r)
			g.TokenConfig.Tokens = append(g.TokenConfig.Tokens, &definition.TokenInfo{Owner: c20RandAddr(r), TokenName: "Ghost", TokenSymbol: "GHOST",
				TotalSupply: big.NewInt(1 + r.Int63n(1000000)), MaxSupply: big.NewInt(1 << 40), TokenStandard: z})
			return fmt.Sprintf("token %v declared with a positive supply that nobody holds", z), true
		}},
		c20Pert{"account-block-removed", func(g *genesis.GenesisConfig, r *rand.Rand) (string, bool) {
			b, _, ok := c20UserEntry(g, r, 1, nil)
			if !ok {
				return "", false
			}
			c20RemoveBlock(g, b.Address)
			return fmt.Sprintf("block of %v (non-zero balance) removed, supplies kept", b.Address), true
		}},
		c20Pert{"pillar-contract-block-removed", func(g *genesis.GenesisConfig, r *rand.Rand) (string, bool) {
			if c20Sum(g, "pillars").Sign() == 0 {
				return "", false
			}
			return "pillar contract block removed, ZNN supply kept", c20RemoveBlock(g, types.PillarContract)
		}},
		// two coordinated edits: token arithmetic stays right, only the contract holding is gone
		c20Pert{"unbacked-pillars", func(g *genesis.GenesisConfig, r *rand.Rand) (string, bool) {
			s := c20Sum(g, "pillars")
			if s.Sign() == 0 || !c20RemoveBlock(g, types.PillarContract) {
				return "", false
			}
			t := c20Token(g, znn)
			t.TotalSupply.Sub(t.TotalSupply, s)
			return fmt.Sprintf("pillars declare %v ZNN of collateral; the pillar contract has no genesis block; ZNN supply reduced accordingly", s), true
		}},
		c20Pert{"unbacked-fusions", func(g *genesis.GenesisConfig, r *rand.Rand) (string, bool) {
			s := c20Sum(g, "fusions")
			if s.Sign() == 0 || !c20RemoveBlock(g, types.PlasmaContract) {
				return "", false
			}
			t := c20Token(g, qsr)
			t.TotalSupply.Sub(t.TotalSupply, s)
			return fmt.Sprintf("fusions declare %v QSR; the plasma contract has no genesis block; QSR supply reduced accordingly", s), true
		}},
	)
	for _, sec := range []string{"GenesisBlocks", "TokenConfig", "PillarConfig", "SporkAddress", "PlasmaConfig", "SwapConfig"} {
		sec := sec
		l = append(l, c20Pert{"missing-" + sec, func(g *genesis.GenesisConfig, r *rand.Rand) (string, bool) {
			switch sec {
			case "GenesisBlocks":
				g.GenesisBlocks = nil
			case "TokenConfig":
				g.TokenConfig = nil
			case "PillarConfig":
				g.PillarConfig = nil
			case "SporkAddress":
				g.SporkAddress = nil
			case "PlasmaConfig":
				g.PlasmaConfig = nil
			case "SwapConfig":
				g.SwapConfig = nil
			}
			return sec + " = nil", true
		}})
	}
	l = append(l,
		c20Pert{"nil-pillar-amount", func(g *genesis.GenesisConfig, r *rand.Rand) (string, bool) {
			g.PillarConfig.Pillars[r.Intn(len(g.PillarConfig.Pillars))].Amount = nil
			return "Amount of one pillar = nil", true
		}},
		c20Pert{"nil-pillar-entry", func(g *genesis.GenesisConfig, r *rand.Rand) (string, bool) {
			g.PillarConfig.Pillars[r.Intn(len(g.PillarConfig.Pillars))] = nil
			return "one pillar entry = nil", true
		}},
		c20Pert{"nil-fusion-amount", func(g *genesis.GenesisConfig, r *rand.Rand) (string, bool) {
			if len(g.PlasmaConfig.Fusions) == 0 {
				return "", false
			}
			g.PlasmaConfig.Fusions[r.Intn(len(g.PlasmaConfig.Fusions))].Amount = nil
			return "Amount of one fusion = nil", true
		}},
		c20Pert{"nil-fusion-entry", func(g *genesis.GenesisConfig, r *rand.Rand) (string, bool) {
			if len(g.PlasmaConfig.Fusions) == 0 {
				return "", false
			}
			g.PlasmaConfig.Fusions[r.Intn(len(g.PlasmaConfig.Fusions))] = nil
			return "one fusion entry = nil", true
		}},
		c20Pert{"nil-swap-amount", func(g *genesis.GenesisConfig, r *rand.Rand) (string, bool) {
			if len(g.SwapConfig.Entries) == 0 {
				return "", false
			}
			e := g.SwapConfig.Entries[r.Intn(len(g.SwapConfig.Entries))]
			if r.Intn(2) == 0 {
				e.Znn = nil
				return "Znn of one swap entry = nil", true
			}
			e.Qsr = nil
			return "Qsr of one swap entry = nil", true
		}},
		c20Pert{"nil-swap-entry", func(g *genesis.GenesisConfig, r *rand.Rand) (string, bool) {
			if len(g.SwapConfig.Entries) == 0 {
				return "", false
			}
			g.SwapConfig.Entries[r.Intn(len(g.SwapConfig.Entries))] = nil
			return "one swap entry = nil", true
		}},
		c20Pert{"nil-token-supply", func(g *genesis.GenesisConfig, r *rand.Rand) (string, bool) {
			g.TokenConfig.Tokens[r.Intn(len(g.TokenConfig.Tokens))].TotalSupply = nil
			return "TotalSupply of one token = nil", true
		}},
		c20Pert{"nil-token-entry", func(g *genesis.GenesisConfig, r *rand.Rand) (string, bool) {
			g.TokenConfig.Tokens[r.Intn(len(g.TokenConfig.Tokens))] = nil
			return "one token entry = nil", true
		}},
		c20Pert{"nil-balance", func(g *genesis.GenesisConfig, r *rand.Rand) (string, bool) {
			b, z, ok := c20UserEntry(g, r, 0, nil)
			if !ok {
				return "", false
			}
			b.BalanceList[z] = nil
			return fmt.Sprintf("balance of %v in %v = nil", b.Address, z), true
		}},
		c20Pert{"nil-block-entry", func(g *genesis.GenesisConfig, r *rand.Rand) (string, bool) {
			g.GenesisBlocks.Blocks[r.Intn(len(g.GenesisBlocks.Blocks))] = nil
			return "one block entry = nil", true
		}},
	)
	return l
}

func c20RunPert(c *fw.C, caseID string) {
	r := c.Rand(caseID)
	g := c20Generate(r, r.Intn(4) != 0, false)
	cfg := g.Cfg
	if err, p := c20Check(cfg); err != nil || p != nil {
		c.Inconclusive(fmt.Sprintf("generated configuration not accepted by CheckGenesis (err=%v panic=%v)", err, p))
		return
	}
	scratch := c.ScratchDir(caseID)
	defer os.RemoveAll(scratch)
	baseDigest := c20CfgDigest(cfg)

	for _, pt := range c20Perturbations() {
		pr := c.Rand(caseID + "/" + pt.class)
		pc := c20Clone(cfg)
		note, ok := pt.apply(pc, pr)
		if !ok {
			c.Count("perturbation_not_applicable", 1)
			continue
		}
		cfgJSON, merr := json.Marshal(pc)
		if merr != nil {
			c.Inconclusive("cannot marshal perturbed configuration: " + merr.Error())
			continue
		}
		if c20Sha(cfgJSON) == baseDigest {
			c.Inconclusive("perturbation " + pt.class + " left the configuration unchanged")
			continue
		}
		detail := func(via string, more map[string]interface{}) map[string]interface{} {
			d := map[string]interface{}{"class": pt.class, "edit": note, "via": via, "perturbed_config": json.RawMessage(cfgJSON), "expected": "refused with an error"}
			for k, v := range more {
				d[k] = v
			}
			return d
		}
		unbacked := strings.HasPrefix(pt.class, "unbacked-")
		acceptedSig := "inconsistent configuration accepted: " + pt.class
		if unbacked {
			acceptedSig = "unbacked contract holding accepted: contract without genesis block is not checked"
		}

		// 1. the validator itself
		c.Eval(1)
		err, p := c20Check(c20Clone(pc))
		var outcome string
		switch {
		case p != nil:
			outcome = "validator-panic" // refused, however rudely; the statement is about the node's entry point below
		case err != nil:
			outcome = "error"
			c.SetAdd("rejection_reasons", c20Reason(err.Error()))
		default:
			outcome = "accepted"
			c.Violation(acceptedSig, detail("CheckGenesis", nil))
		}
		c.Distinct("pert:" + pt.class + ":check:" + outcome)
		c.SetAdd("check_outcomes", pt.class+" -> "+outcome)

		// 2. the way a node reads it
		c.Eval(1)
		path := filepath.Join(scratch, "pert.json")
		data := cfgJSON
		if pr.Intn(2) == 0 {
			if sh, e := c20ShuffleJSON(cfgJSON, pr); e == nil {
				data = sh
			}
		}
		_ = os.WriteFile(path, data, 0o644)
		gen, ferr, fp := c20ReadFile(path)
		switch {
		case fp != nil:
			outcome = "panic-escaped"
			c.Violation("ReadGenesisConfigFromFile panics: "+pt.class, detail("ReadGenesisConfigFromFile", map[string]interface{}{"panic": fmt.Sprint(fp)}))
		case ferr != nil && gen == nil:
			outcome = "error"
			c.SetAdd("file_errors", ferr.Error())
		case ferr != nil:
			outcome = "error-with-genesis"
			c.SetAdd("file_errors", ferr.Error())
		case gen == nil:
			outcome = "nil-genesis-nil-error"
			c.Violation("ReadGenesisConfigFromFile returns (nil, nil) after a recovered validator panic",
				detail("ReadGenesisConfigFromFile", map[string]interface{}{"observed": "nil genesis and nil error: the caller (node.makeGenesisConfig) treats err == nil as 'loaded a valid genesis config'"}))
		default:
			outcome = "accepted"
			c.Violation(acceptedSig, detail("ReadGenesisConfigFromFile", map[string]interface{}{"genesis_hash": gen.GetGenesisMomentum().Hash.String()}))
		}
		c.Distinct("pert:" + pt.class + ":file:" + outcome)
		c.SetAdd("file_outcomes", pt.class+" -> "+outcome)
		c.Count("perturbations", 1)
	}
}

// c20Reason keeps the fixed wording of a validator message (no addresses, tokens, numbers).
func c20Reason(msg string) string {
	if strings.Contains(msg, "declared but not given") {
		return "token declared but not given at all"
	}
	cut := len(msg)
	for _, m := range []string{" z1", " zts1", " &{"} {
		if i := strings.Index(msg, m); i >= 0 && i < cut {
			cut = i
		}
	}
	if i := strings.IndexAny(msg, "0123456789"); i >= 0 && i < cut {
		cut = i
	}
	out := strings.TrimSpace(msg[:cut])
	for _, tail := range []string{"Extra token", "to be present", "but got", "given but not declared"} {
		if strings.Contains(msg[cut:], tail) {
			out += " ... " + tail
		}
	}
	return out
}

// ---------------------------------------------------------------------------
// pair cases: database of A, node configured with B

var c20PairModes = []string{"identical", "permuted-json", "other-spork-address", "semantic-edit", "unrelated", "semantic-edit-advanced", "identical-advanced", "unrelated-advanced"}

// c20SemanticEdit changes one thing while keeping the configuration consistent.
func c20SemanticEdit(g *genesis.GenesisConfig, r *rand.Rand) string {
	for {
		switch r.Intn(12) {
		case 0:
			g.ExtraData += "x"
			return "extra-data"
		case 1:
			g.GenesisTimestampSec++
			return "timestamp"
		case 2:
			g.ChainIdentifier++
			return "chain-identifier"
		case 3:
			// move one unit between two accounts: every sum is preserved
			b, z, ok := c20UserEntry(g, r, 1, nil)
			if !ok {
				continue
			}
			b.BalanceList[z].Sub(b.BalanceList[z], big.NewInt(1))
			c20AddBalance(g, c20RandAddr(r), z, big.NewInt(1))
			return "one-unit-transfer"
		case 4:
			p := g.PillarConfig.Pillars[r.Intn(len(g.PillarConfig.Pillars))]
			p.RewardWithdrawAddress = c20RandAddr(r)
			return "pillar-reward-address"
		case 5:
			p := g.PillarConfig.Pillars[r.Intn(len(g.PillarConfig.Pillars))]
			p.GiveBlockRewardPercentage ^= 1
			return "pillar-percentage"
		case 6:
			g.PillarConfig.Delegations = append(g.PillarConfig.Delegations, &definition.DelegationInfo{Backer: c20RandAddr(r), Name: g.PillarConfig.Pillars[0].Name})
			return "delegation-added"
		case 7:
			if len(g.SwapConfig.Entries) == 0 {
				continue
			}
			e := g.SwapConfig.Entries[r.Intn(len(g.SwapConfig.Entries))]
			e.Qsr.Add(e.Qsr, big.NewInt(1))
			return "swap-entry-amount"
		case 8:
			if len(g.PlasmaConfig.Fusions) == 0 {
				continue
			}
			f := g.PlasmaConfig.Fusions[r.Intn(len(g.PlasmaConfig.Fusions))]
			f.Beneficiary = c20RandAddr(r)
			return "fusion-beneficiary"
		case 9:
			if g.SporkConfig == nil || len(g.SporkConfig.Sporks) == 0 {
				continue
			}
			s := g.SporkConfig.Sporks[r.Intn(len(g.SporkConfig.Sporks))]
			s.Description += "!"
			return "spork-description"
		case 10:
			t := g.TokenConfig.Tokens[r.Intn(len(g.TokenConfig.Tokens))]
			t.MaxSupply.Add(t.MaxSupply, big.NewInt(1))
			return "token-max-supply"
		case 11:
			g.PillarConfig.LegacyEntries = append(g.PillarConfig.LegacyEntries, &definition.LegacyPillarEntry{KeyIdHash: c20RandHash(r), PillarCount: 1})
			return "legacy-entry-added"
		}
	}
}

// c20ChainInit opens the directory with the configured genesis exactly as a starting node does and closes it again.
func c20ChainInit(dir string, gen store.Genesis) (first string, err error, panicked interface{}) {
	defer func() {
		if r := recover(); r != nil {
			panicked = r
		}
	}()
	mgr := db.NewLevelDBManager(dir)
	ch := chain.NewChain(mgr, gen)
	defer func() {
		defer func() { _ = recover() }()
		_ = ch.Stop()
	}()
	err = ch.Init()
	if m, e := ch.GetFrontierMomentumStore().GetMomentumByHeight(1); e == nil && m != nil {
		first = m.Hash.String()
	}
	return first, err, nil
}

func c20RunPair(c *fw.C, caseID string) {
	r := c.Rand(caseID)
	idx, _ := strconv.Atoi(strings.TrimPrefix(caseID, "pair:"))
	mode := c20PairModes[idx%len(c20PairModes)]
	advanced := strings.HasSuffix(mode, "-advanced")
	baseMode := strings.TrimSuffix(mode, "-advanced")
	ga := c20Generate(r, true, advanced)
	cfgA := ga.Cfg
	if err, p := c20Check(cfgA); err != nil || p != nil {
		c.Inconclusive(fmt.Sprintf("generated configuration not accepted by CheckGenesis (err=%v panic=%v)", err, p))
		return
	}
	cfgB := c20Clone(cfgA)
	edit := ""
	switch baseMode {
	case "identical":
	case "permuted-json":
		c20Permute(cfgB, r, -1)
	case "other-spork-address":
		a := c20RandAddr(r)
		cfgB.SporkAddress = &a
	case "semantic-edit":
		edit = c20SemanticEdit(cfgB, r)
	case "unrelated":
		cfgB = c20Generate(r, true, false).Cfg
	}
	if err, p := c20Check(cfgB); err != nil || p != nil {
		c.Inconclusive(fmt.Sprintf("configuration B (%s %s) not accepted by CheckGenesis (err=%v panic=%v)", mode, edit, err, p))
		return
	}

	scratch := c.ScratchDir(caseID)
	defer os.RemoveAll(scratch)
	dir := filepath.Join(scratch, "db")
	detail := map[string]interface{}{"mode": mode, "edit": edit, "config_a": c20ConfigJSON(cfgA), "config_b": c20ConfigJSON(cfgB)}

	// create the database with A
	genA, fpA, p := c20Build(c20Clone(cfgA))
	if p != nil {
		c.Inconclusive(fmt.Sprintf("NewGenesis(A) panicked: %v", p))
		return
	}
	height := uint64(1)
	if advanced {
		k := 1 + r.Intn(5)
		ok := func() (ok bool) {
			defer func() {
				if rec := recover(); rec != nil {
					c.Inconclusive(fmt.Sprintf("cannot advance the chain of A by %d momentums: %v", k, rec))
					ok = false
				}
			}()
			n := simnet.Open("c20-a", dir, genA, ga.Keys)
			defer n.Stop()
			n.MustProduce(k)
			height = n.Height()
			return true
		}()
		if !ok {
			return
		}
	} else {
		first, err, p := c20ChainInit(dir, genA)
		if err != nil || p != nil {
			c.Violation("chain.Init fails on an empty database", map[string]interface{}{"error": fmt.Sprint(err), "panic": fmt.Sprint(p), "config": detail["config_a"]})
			return
		}
		if first != fpA.Hash {
			c.Violation("database created by chain.Init does not hold the configured genesis at height 1", map[string]interface{}{"stored": first, "configured": fpA.Hash, "config": detail["config_a"]})
			return
		}
	}
	detail["height_of_database"] = height

	// B, as a node would get it
	var genB store.Genesis
	if baseMode == "permuted-json" {
		plain, _ := json.Marshal(cfgB)
		sh, err := c20ShuffleJSON(plain, r)
		if err != nil {
			c.Inconclusive("cannot re-encode JSON: " + err.Error())
			return
		}
		path := filepath.Join(scratch, "b.json")
		_ = os.WriteFile(path, sh, 0o644)
		gen, err, p := c20ReadFile(path)
		if err != nil || p != nil || gen == nil {
			c.Inconclusive(fmt.Sprintf("configuration B not readable from file: err=%v panic=%v", err, p))
			return
		}
		genB = gen
	} else {
		gen, _, p := c20Build(cfgB)
		if p != nil {
			c.Inconclusive(fmt.Sprintf("NewGenesis(B) panicked: %v", p))
			return
		}
		genB = gen
	}
	hashB := genB.GetGenesisMomentum().Hash.String()
	sameGenesis := hashB == fpA.Hash
	detail["hash_a"], detail["hash_b"] = fpA.Hash, hashB

	// by construction an identical or merely permuted configuration has the same genesis momentum
	if (baseMode == "identical" || baseMode == "permuted-json") && !sameGenesis {
		c.Violation("genesis hash differs: pair "+baseMode, detail)
	}

	c.Eval(1)
	stored, err, p := c20ChainInit(dir, genB)
	detail["stored_height_1"] = stored
	outcome := "ok"
	switch {
	case p != nil:
		outcome = "panic"
		detail["panic"] = fmt.Sprint(p)
	case err != nil:
		outcome = "error"
		detail["error"] = err.Error()
	}
	if stored != "" && stored != fpA.Hash {
		c.Violation("height-1 momentum of the database changed by a second Init", detail)
	}
	switch {
	case sameGenesis && outcome != "ok":
		c.Violation("chain.Init refuses a database created with the same genesis", detail)
	case !sameGenesis && outcome == "ok":
		c.Violation("chain.Init accepts a database whose first momentum is not the configured genesis", detail)
	case !sameGenesis && outcome == "panic":
		c.Violation("chain.Init panics instead of refusing a mismatching database", detail)
	}
	c.Distinct(fmt.Sprintf("pair:%s:same=%v:init=%s", mode, sameGenesis, outcome))
	if edit != "" {
		c.Distinct(fmt.Sprintf("pair-edit:%s:same=%v:init=%s", edit, sameGenesis, outcome))
	}
	c.Count("pairs", 1)
	if sameGenesis {
		c.Count("pairs_same_genesis", 1)
	}
	if advanced {
		c.SetAdd("advanced_heights", strconv.FormatUint(height, 10))
	}

	// the database is still A's: a node configured with A must start on it after the refusal
	if !sameGenesis {
		genA2, _, p := c20Build(c20Clone(cfgA))
		if p == nil {
			c.Eval(1)
			if _, err, p := c20ChainInit(dir, genA2); err != nil || p != nil {
				detail["reopen_error"], detail["reopen_panic"] = fmt.Sprint(err), fmt.Sprint(p)
				c.Violation("chain.Init refuses a database created with the same genesis", detail)
			}
		}
	}
}
