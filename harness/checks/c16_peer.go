//go:build verif

package checks

// C16, last clause: "The peer that supplied an invalid batch is reported as the error's source."
//
// The real ProtocolManager (downloader, fetcher, peer set) of a node T runs against two in-memory peers: an honest one
// serving the producer's genuine momentums and a supplier that announces the genuine chain but delivers momentums whose
// signature is broken. The downloader mixes deliveries of both into the batches it hands to InsertChain. Observed events
// (all emitted synchronously by the node's own goroutines, in program order):
//   I  InsertChain(batch) returned (index, err)         — recorded by a wrapper around the chain bridge
//   R  "removing peer" peer-id=X                       — ProtocolManager.removePeer (what the downloader's dropPeer is)
//   S  the downloader's Synchronise call ended           — its closing log line; it can only end after the import
//                                                          goroutine cancelled the sync, which it does AFTER dropping
// Oracle: after a failed I whose failing element was delivered by the supplier, the next R names the supplier, never the
// honest peer; and an S following the failed I without any R in between means nobody was dropped. No timeout decides.

import (
	"fmt"
	"sync"
	"time"

	"github.com/inconshreveable/log15"
	"github.com/zenon-network/go-zenon/chain/nom"
	"github.com/zenon-network/go-zenon/common"
	"github.com/zenon-network/go-zenon/common/types"
	"github.com/zenon-network/go-zenon/protocol"

	"verif/harness/fw"
)

func init() {
	c16PeerCases = func(tier string) []string {
		n := 6
		if tier == "thorough" {
			n = 120
		}
		var l []string
		for i := 0; i < n; i++ {
			l = append(l, fmt.Sprintf("peer:%d", i))
		}
		return l
	}
	c16PeerRun = c16RunPeer
}

type c16Event struct {
	kind  string // insert | remove | sync-end
	peer  string
	index int
	err   string
	batch []*nom.DetailedMomentum
}

type c16Recorder struct {
	protocol.ChainBridge
	mu     sync.Mutex
	events []c16Event
	wake   chan struct{}
}

func (r *c16Recorder) add(e c16Event) {
	r.mu.Lock()
	r.events = append(r.events, e)
	r.mu.Unlock()
	select {
	case r.wake <- struct{}{}:
	default:
	}
}

func (r *c16Recorder) InsertChain(batch []*nom.DetailedMomentum) (int, error) {
	idx, err := r.ChainBridge.InsertChain(batch)
	es := ""
	if err != nil {
		es = err.Error()
	}
	r.add(c16Event{kind: "insert", index: idx, err: es, batch: batch})
	return idx, err
}

func (r *c16Recorder) snapshot() []c16Event {
	r.mu.Lock()
	defer r.mu.Unlock()
	return append([]c16Event{}, r.events...)
}

func c16RunPeer(c *fw.C, caseID string) {
	rng := c.Rand(caseID)
	rec := &c16Recorder{wake: make(chan struct{}, 1)}
	c15BridgeWrap = func(b protocol.ChainBridge) protocol.ChainBridge { rec.ChainBridge = b; return rec }
	defer func() { c15BridgeWrap = nil }()
	// the node's own log lines as events
	ctxOf := func(r *log15.Record, key string) string {
		for i := 0; i+1 < len(r.Ctx); i += 2 {
			if fmt.Sprint(r.Ctx[i]) == key {
				return fmt.Sprint(r.Ctx[i+1])
			}
		}
		return ""
	}
	common.ProtocolLogger.SetHandler(log15.FuncHandler(func(r *log15.Record) error {
		if r.Msg == "removing peer" {
			rec.add(c16Event{kind: "remove", peer: ctxOf(r, "peer-id")})
		}
		return nil
	}))
	common.DownloaderLogger.SetHandler(log15.FuncHandler(func(r *log15.Record) error {
		switch r.Msg {
		case "Synchronisation completed", "Synchronisation failed", "Synchronisation aborted", "Removing peer":
			rec.add(c16Event{kind: "sync-end", err: r.Msg + " " + ctxOf(r, "reason")})
		}
		return nil
	}))
	defer common.ProtocolLogger.SetHandler(log15.DiscardHandler())
	defer common.DownloaderLogger.SetHandler(log15.DiscardHandler())

	mc := c.Muted() // C15's own verdicts (crashes, limits) are not C16's
	x := c15NewCtx(mc, caseID)
	defer x.finish()
	if x.dead {
		c.Inconclusive("peer environment could not be set up")
		return
	}
	e := x.e
	e.ahead(140 + rng.Intn(200))
	top := e.T.Height()
	s := c15Open(mc, x.pm, "supplier")
	defer s.close()
	reqs := make(chan c15In, 4096)
	s.setOnMsg(func(in c15In) {
		if in.code == 3 || in.code == 5 || in.code == 8 {
			select {
			case reqs <- in:
			default:
			}
		}
	})
	if st := s.handshake(e, top, e.hashes[top]); st != "ok" {
		c.Inconclusive("supplier handshake: " + st)
		return
	}
	sv := &c15Server{x: x, s: s, rng: rng, hp: "h-genuine", bp: "b-mutated", servedAt: map[uint64]int{}, served: map[string]int{}}
	// the announcement of the producer's frontier makes the node synchronise with the supplier
	if st := s.writeBytes(7, c15Enc(e.P.Detailed(e.P.Height()))); st != "ok" {
		c.Inconclusive("sync trigger not consumed: " + st)
		return
	}
	go sv.serve(reqs, 3*time.Second, 4000)

	// wait for the decisive events (the watchdog only ends the wait; it decides nothing)
	deadline := time.After(c15Watchdog)
	var failed *c16Event
	verdict := ""
	for verdict == "" {
		evs := rec.snapshot()
		failed = nil
		for i := range evs {
			ev := &evs[i]
			switch {
			case ev.kind == "insert" && ev.err != "" && failed == nil:
				failed = ev
			case failed != nil && ev.kind == "remove":
				verdict = "removed:" + ev.peer
			case failed != nil && ev.kind == "sync-end":
				verdict = "sync-ended-without-removal: " + ev.err
			}
			if verdict != "" {
				break
			}
		}
		if verdict != "" {
			break
		}
		select {
		case <-rec.wake:
		case <-deadline:
			verdict = "watchdog"
		}
	}
	c.Eval(1)
	if failed == nil {
		c.Count("peer_cases_without_failed_import", 1)
		c.Inconclusive("no import failed before the watchdog (the supplier's momentums were not reached)")
		return
	}
	// who delivered the failing element? the supplier's copies carry a broken signature, the honest peer's are genuine
	if failed.index < 0 || failed.index >= len(failed.batch) {
		c.Violation("failing-index-outside-the-batch peer-level", map[string]interface{}{"index": failed.index, "batch": len(failed.batch), "err": failed.err})
		return
	}
	bad := failed.batch[failed.index].Momentum
	h := e.byHash[bad.Hash]
	genuine := e.P.Detailed(h)
	fromSupplier := genuine != nil && string(genuine.Momentum.Signature) != string(bad.Signature)
	firstBroken := -1
	for i, d := range failed.batch {
		if g := e.P.Detailed(e.byHash[d.Momentum.Hash]); g != nil && string(g.Momentum.Signature) != string(d.Momentum.Signature) {
			firstBroken = i
			break
		}
	}
	wit := map[string]interface{}{"failing_index": failed.index, "first_broken_element": firstBroken, "batch_len": len(failed.batch), "err": failed.err,
		"supplier": s.pid, "honest": x.honest.pid, "verdict": verdict, "target_height_before": top}
	if !fromSupplier || firstBroken != failed.index {
		c.Violation("wrong-failing-index-reported peer-level", wit)
		return
	}
	mixed := false
	for _, d := range failed.batch[:failed.index] {
		_ = d
		mixed = true // genuine elements (from the honest peer) precede the broken one in the same batch
	}
	c.Distinct(fmt.Sprintf("peer-level failing import: genuine elements before the broken one=%v", mixed))
	c.SetAdd("peer_level_verdicts", map[bool]string{true: "supplier removed", false: verdict}[verdict == "removed:"+s.pid])
	switch {
	case verdict == "removed:"+s.pid:
		c.Count("supplier_of_invalid_batch_dropped", 1)
	case verdict == "removed:"+x.honest.pid:
		c.Violation("honest-peer-dropped-for-anothers-invalid-batch", wit)
	case len(verdict) > 8 && verdict[:8] == "removed:":
		c.Violation("unknown-peer-dropped-for-invalid-batch", wit)
	case verdict == "watchdog":
		c.Inconclusive("import failed but neither a removal nor the end of the synchronisation was observed before the watchdog")
	default:
		c.Violation("supplier-of-invalid-batch-not-dropped", wit)
	}
	// the node must not have adopted anything but the producer's chain
	if !e.barrier(100 * time.Millisecond) {
		c.Inconclusive("chain insert lock not released")
		x.dead, e.tainted = true, true
		return
	}
	for hh := top + 1; hh <= e.T.Height(); hh++ {
		if d := e.T.Detailed(hh); d == nil || hh >= uint64(len(e.hashes)) || d.Momentum.Hash != e.hashes[hh] {
			c.Violation("adopted-momentum-not-on-producers-chain peer-level", map[string]interface{}{"height": hh})
			e.tainted = true
			break
		}
	}
	_ = types.Hash{}
}
