//go:build verif

package checks

// C15 — catalogue of hostile protocol messages: (phase, code, class) -> concrete message.

import (
	"bytes"
	"fmt"
	"io"
	"math"
	"math/big"
	"math/rand"

	"github.com/ethereum/go-ethereum/rlp"

	g "github.com/zenon-network/go-zenon/chain/genesis/mock"
	"github.com/zenon-network/go-zenon/chain/nom"
	"github.com/zenon-network/go-zenon/common/types"
	"github.com/zenon-network/go-zenon/wallet"

	"verif/harness/simnet"
)

type c15Entry struct {
	phase string // "post" (after a valid handshake) or "pre" (as the very first message)
	code  uint64
	class string
}

var c15UnknownCodes = []uint64{9, 15, 16, 255, 1 << 32, math.MaxUint64}

var c15GenericPost = []string{"valid", "random", "truncated", "bitflip", "empty", "empty-list", "size-larger", "size-smaller", "size-zero", "oversize", "oversize-max", "at-limit", "deep-nesting", "huge-length-prefix", "trailing-garbage", "string-instead-of-list"}
var c15GenericPre = []string{"valid", "random", "truncated", "empty", "oversize", "size-larger", "deep-nesting"}

var c15Specific = map[uint64][]string{
	0: {"wrong-genesis", "wrong-network", "wrong-version", "td-max", "td-zero", "head-zero", "head-unknown", "extra-fields", "missing-fields", "big-ints"},
	1: {"one-unknown", "1000-unknown", "300-unknown", "known", "dup-1000", "short-hash", "long-hash"},
	2: {"known-block", "new-valid-block", "two-new-valid-blocks", "new-valid-then-garbage", "four-new-valid-blocks", "bad-signature", "zero-block", "amount-max", "height-zero", "height-max", "dup-1000", "nested-descendants", "contract-send-type", "unknown-type", "huge-data", "garbage-pubkey"},
	3: {"known-hash-amt0", "known-hash-amt1", "known-hash-amt512", "known-hash-amt513", "known-hash-amt1000", "known-hash-amtmax", "genesis-hash-amtmax", "mid-hash-amt1000", "unknown-hash", "zero-hash", "amount-overflow"},
	4: {"one-unknown", "1000-unknown", "known", "100k-hashes"},
	5: {"one-known", "one-unknown", "128-known", "129-known", "1000-known", "1000-unknown", "1000-mixed", "dup-1000", "genesis", "short-hash"},
	6: {"known-block", "zero-momentum", "content-without-blocks", "blocks-without-content", "future-valid", "mutated-valid", "200-blocks", "huge-data", "garbage-pubkey"},
	7: {"valid-next", "valid-future", "zero-momentum", "linked-garbage", "unlinked", "height-max", "height-zero", "content-without-blocks", "blocks-without-content", "mutated-valid", "garbage-pubkey", "wrong-hash-field"},
	8: {"n0-a0", "n0-a1", "n0-a512", "n0-amax", "n1-a1", "n1-a1000", "nmid-a512", "nmid-a513", "nmid-amax", "nnear-a512", "ntop-a0", "ntop-a1", "ntop-a512", "ntop-amax", "ntop1-a1", "nfar-a1", "nfar-a512", "nmax-a1", "nmax-a2", "nmax-amax", "amount-overflow"},
}

func c15Catalogue() []c15Entry {
	var l []c15Entry
	codes := []uint64{0, 1, 2, 3, 4, 5, 6, 7, 8}
	codes = append(codes, c15UnknownCodes...)
	for _, code := range codes {
		for _, cl := range c15GenericPost {
			l = append(l, c15Entry{"post", code, cl})
		}
		for _, cl := range c15Specific[code] {
			l = append(l, c15Entry{"post", code, cl})
		}
		for _, cl := range c15GenericPre {
			if code == 0 && cl == "size-larger" {
				// MsgPipe artefact: the handshake does not drain the payload, so only the writer (the hostile peer itself) would block
				continue
			}
			l = append(l, c15Entry{"pre", code, cl})
		}
		if code == 0 {
			for _, cl := range c15Specific[0] {
				l = append(l, c15Entry{"pre", code, cl})
			}
		}
	}
	return l
}

type c15Msg struct {
	code    uint64
	class   string
	payload []byte
	size    uint32 // claimed size
	filler  int64  // zero bytes supplied lazily after payload
	async   bool   // may start background work on the node (fetcher / downloader / import)
	desc    string
}

type c15Zero struct{}

func (c15Zero) Read(p []byte) (int, error) {
	for i := range p {
		p[i] = 0
	}
	return len(p), nil
}

func (m *c15Msg) reader() io.Reader {
	if m.filler <= 0 {
		return bytes.NewReader(m.payload)
	}
	return io.MultiReader(bytes.NewReader(m.payload), io.LimitReader(c15Zero{}, m.filler))
}

func (m *c15Msg) witness() map[string]interface{} {
	p := m.payload
	cut := false
	if len(p) > 300 {
		p, cut = p[:300], true
	}
	return map[string]interface{}{"code": m.code, "code_name": c15CodeName(m.code), "class": m.class, "claimed_size": m.size,
		"payload_len": len(m.payload), "zero_filler": m.filler, "payload_hex_prefix": fmt.Sprintf("%x", p), "payload_cut": cut, "what": m.desc}
}

func c15RandHash(rng *rand.Rand) types.Hash {
	var h types.Hash
	rng.Read(h[:])
	return h
}

func c15RandHashes(rng *rand.Rand, n int) []types.Hash {
	l := make([]types.Hash, n)
	for i := range l {
		l[i] = c15RandHash(rng)
	}
	return l
}

func c15Enc(v interface{}) []byte {
	b, err := rlp.EncodeToBytes(v)
	if err != nil {
		panic("c15: cannot encode: " + err.Error())
	}
	return b
}

// c15Valid is a well-formed honest payload for the code.
func c15Valid(e *c15Env, code uint64) []byte {
	top := e.T.Height()
	switch code {
	case 0:
		return c15StatusPayload(61, uint32(e.chainID), top, e.hashes[top], e.genesis)
	case 1:
		return c15RlpHashes([]types.Hash{e.hashes[top]})
	case 2:
		if len(e.sends) > 0 {
			return c15Enc([]*nom.AccountBlock{simnet.CloneBlock(e.sends[0])})
		}
		return []byte{0xc0}
	case 3:
		return c15RlpList(c15RlpStr(e.hashes[top][:]), c15RlpUint(10))
	case 4:
		return c15RlpHashes([]types.Hash{e.hashes[top]})
	case 5:
		return c15RlpHashes([]types.Hash{e.hashes[top], e.hashes[top-1]})
	case 6:
		return c15Enc([]*nom.DetailedMomentum{simnet.CloneDetailed(e.T.Detailed(top))})
	case 7:
		return c15Enc(simnet.CloneDetailed(e.T.Detailed(top)))
	case 8:
		return c15RlpList(c15RlpUint(top-5), c15RlpUint(5))
	}
	return []byte{0xc0}
}

// c15Garbage makes a linked-looking momentum that is not valid.
func c15FakeMomentum(rng *rand.Rand, e *c15Env, height uint64, prev types.Hash) *nom.DetailedMomentum {
	m := &nom.Momentum{Version: 1, ChainIdentifier: e.chainID, PreviousHash: prev, Height: height, TimestampUnix: 1000000000 + height*10,
		Data: []byte{}, Content: nom.MomentumContent{}, ChangesHash: c15RandHash(rng), PublicKey: make([]byte, 32), Signature: make([]byte, 64)}
	rng.Read(m.PublicKey)
	rng.Read(m.Signature)
	m.Hash = m.ComputeHash()
	return &nom.DetailedMomentum{Momentum: m, AccountBlocks: []*nom.AccountBlock{}}
}

func c15FakeBlock(rng *rand.Rand, e *c15Env) *nom.AccountBlock {
	b := &nom.AccountBlock{Version: 1, ChainIdentifier: e.chainID, BlockType: nom.BlockTypeUserSend, Height: 1 + uint64(rng.Intn(5)),
		MomentumAcknowledged: types.HashHeight{Hash: e.hashes[e.T.Height()], Height: e.T.Height()}, Address: g.User5.Address, ToAddress: g.User6.Address,
		Amount: big.NewInt(int64(rng.Intn(1000))), TokenStandard: types.ZnnTokenStandard, Data: []byte{}, PublicKey: g.User5.Public, Signature: make([]byte, 64)}
	rng.Read(b.Signature)
	b.Hash = b.ComputeHash()
	return b
}

// c15Make builds the concrete message of a catalogue class.
func c15Make(e *c15Env, rng *rand.Rand, code uint64, class string) *c15Msg {
	m := &c15Msg{code: code, class: class}
	top := e.T.Height()
	head := e.hashes[top]
	valid := c15Valid(e, code)
	set := func(p []byte, desc string) *c15Msg {
		m.payload, m.size, m.desc = p, uint32(len(p)), desc
		return m
	}
	m.async = code == 1 || code == 2 || code == 4 || code == 6 || code == 7
	// ---- generic classes
	switch class {
	case "valid":
		return set(valid, "well-formed honest payload")
	case "random":
		p := make([]byte, rng.Intn(2000))
		rng.Read(p)
		return set(p, "random bytes")
	case "truncated":
		if len(valid) < 2 {
			return set(nil, "truncated to nothing")
		}
		return set(valid[:1+rng.Intn(len(valid)-1)], "valid payload cut short")
	case "bitflip":
		p := append([]byte(nil), valid...)
		for i := 0; i < 1+rng.Intn(3) && len(p) > 0; i++ {
			p[rng.Intn(len(p))] ^= 1 << uint(rng.Intn(8))
		}
		return set(p, "valid payload with 1-3 bits flipped")
	case "empty":
		return set(nil, "zero-length payload")
	case "empty-list":
		return set([]byte{0xc0}, "empty RLP list")
	case "size-larger":
		set(valid, "Size field larger than the bytes the reader provides")
		m.size = uint32(len(valid) + 1 + rng.Intn(5000))
		return m
	case "size-smaller":
		set(valid, "Size field smaller than the payload")
		if len(valid) > 1 {
			m.size = uint32(rng.Intn(len(valid)))
		}
		return m
	case "size-zero":
		set(valid, "Size 0 with a payload behind it")
		m.size = 0
		return m
	case "oversize":
		set(valid, "valid payload followed by zero bytes, Size just above 10 MiB")
		m.size = c15MaxMsg + 1 + uint32(rng.Intn(4096))
		m.filler = int64(m.size) - int64(len(valid))
		return m
	case "oversize-max":
		set(valid, "valid payload followed by zero bytes, Size = max uint32")
		m.size = math.MaxUint32
		m.filler = int64(m.size) - int64(len(valid))
		return m
	case "at-limit":
		set(valid, "valid payload followed by zero bytes, Size exactly 10 MiB (allowed)")
		m.size = c15MaxMsg
		m.filler = int64(m.size) - int64(len(valid))
		return m
	case "deep-nesting":
		depth := 2000 + rng.Intn(3000)
		p := []byte{0xc0}
		for i := 0; i < depth; i++ {
			p = c15RlpList(p)
		}
		return set(p, "list nested thousands of levels deep")
	case "huge-length-prefix":
		p := []byte{0xff, 0x7f, 0xff, 0xff, 0xff, 0xff, 0xff, 0xff, 0xff}
		p = append(p, valid...)
		return set(p, "list header announcing 2^63 bytes")
	case "trailing-garbage":
		p := append(append([]byte(nil), valid...), make([]byte, 1+rng.Intn(100))...)
		rng.Read(p[len(valid):])
		return set(p, "valid payload followed by random bytes")
	case "string-instead-of-list":
		return set(c15RlpStr(valid), "the valid payload wrapped as an RLP string")
	}
	// ---- specific classes
	switch code {
	case 0:
		v, n, td, hd, gen := uint32(61), uint32(e.chainID), top, head, e.genesis
		switch class {
		case "wrong-genesis":
			gen = c15RandHash(rng)
		case "wrong-network":
			n++
		case "wrong-version":
			v = uint32(rng.Intn(60))
		case "td-max":
			td = math.MaxUint64
		case "td-zero":
			td = 0
		case "head-zero":
			hd = types.Hash{}
		case "head-unknown":
			hd = c15RandHash(rng)
		case "extra-fields":
			return set(c15RlpList(c15RlpUint(61), c15RlpUint(uint64(n)), c15RlpUint(td), c15RlpStr(hd[:]), c15RlpStr(gen[:]), c15RlpUint(7), c15RlpStr([]byte("x"))), "status with two extra fields")
		case "missing-fields":
			return set(c15RlpList(c15RlpUint(61), c15RlpUint(uint64(n)), c15RlpUint(td)), "status without head and genesis")
		case "big-ints":
			big9 := c15RlpStr([]byte{1, 0, 0, 0, 0, 0, 0, 0, 0})
			return set(c15RlpList(big9, big9, big9, c15RlpStr(hd[:]), c15RlpStr(gen[:])), "status whose integers need 72 bits")
		}
		return set(c15StatusPayload(v, n, td, hd, gen), "status with hostile field: "+class)
	case 1, 4:
		switch class {
		case "one-unknown":
			return set(c15RlpHashes(c15RandHashes(rng, 1)), "one unknown hash")
		case "1000-unknown":
			return set(c15RlpHashes(c15RandHashes(rng, 1000)), "1000 unknown hashes")
		case "300-unknown":
			return set(c15RlpHashes(c15RandHashes(rng, 300)), "300 unknown hashes (announce limit is 256)")
		case "known":
			return set(c15RlpHashes(e.hashes[top-20:top+1]), "21 known hashes")
		case "dup-1000":
			h := c15RandHash(rng)
			l := make([]types.Hash, 1000)
			for i := range l {
				l[i] = h
			}
			return set(c15RlpHashes(l), "the same unknown hash 1000 times")
		case "short-hash":
			return set(c15RlpList(c15RlpStr(make([]byte, 31))), "31-byte hash")
		case "long-hash":
			return set(c15RlpList(c15RlpStr(make([]byte, 33))), "33-byte hash")
		case "100k-hashes":
			return set(c15RlpHashes(c15RandHashes(rng, 100000)), "100000 unknown hashes (3.3 MB)")
		}
	case 2:
		var blocks []*nom.AccountBlock
		base := c15FakeBlock(rng, e)
		if len(e.sends) > 0 {
			base = simnet.CloneBlock(e.sends[rng.Intn(len(e.sends))])
		}
		switch class {
		case "known-block":
			blocks = []*nom.AccountBlock{base}
		case "new-valid-block":
			if tx, err := e.P.Generate(&nom.AccountBlock{BlockType: nom.BlockTypeUserSend, Address: g.User7.Address, ToAddress: g.User8.Address,
				TokenStandard: types.ZnnTokenStandard, Amount: big.NewInt(int64(1 + rng.Intn(1000)))}, g.User7); err == nil {
				blocks = []*nom.AccountBlock{simnet.CloneBlock(tx.Block)}
			} else {
				blocks = []*nom.AccountBlock{c15FakeBlock(rng, e)}
			}
		case "two-new-valid-blocks", "new-valid-then-garbage", "four-new-valid-blocks":
			// blocks the TARGET has never seen and accepts: generated against its own ledger by accounts that are quiet on
			// the producer's chain (what the initial transaction sync of an honest peer sends in one message)
			n := 2
			if class == "four-new-valid-blocks" {
				n = 4
			}
			for i, kp := range []*wallet.KeyPair{g.User4, g.User5, g.User1, g.User2}[:n] {
				if class == "new-valid-then-garbage" && i == 1 {
					blocks = append(blocks, c15FakeBlock(rng, e))
					continue
				}
				if tx, err := e.T.Generate(&nom.AccountBlock{BlockType: nom.BlockTypeUserSend, Address: kp.Address, ToAddress: g.User8.Address,
					TokenStandard: types.ZnnTokenStandard, Amount: big.NewInt(int64(1 + rng.Intn(1000)))}, kp); err == nil {
					blocks = append(blocks, simnet.CloneBlock(tx.Block))
				}
			}
			if len(blocks) == 0 {
				blocks = []*nom.AccountBlock{c15FakeBlock(rng, e)}
			}
		case "bad-signature":
			base.Signature[rng.Intn(len(base.Signature))] ^= 0x40
			blocks = []*nom.AccountBlock{base}
		case "zero-block":
			blocks = []*nom.AccountBlock{{}}
		case "amount-max":
			f := c15FakeBlock(rng, e)
			f.Amount = new(big.Int).Lsh(big.NewInt(1), 300)
			f.Hash = f.ComputeHash()
			blocks = []*nom.AccountBlock{f}
		case "height-zero":
			f := c15FakeBlock(rng, e)
			f.Height = 0
			f.Hash = f.ComputeHash()
			blocks = []*nom.AccountBlock{f}
		case "height-max":
			f := c15FakeBlock(rng, e)
			f.Height = math.MaxUint64
			f.Hash = f.ComputeHash()
			blocks = []*nom.AccountBlock{f}
		case "dup-1000":
			f := c15FakeBlock(rng, e)
			for i := 0; i < 1000; i++ {
				blocks = append(blocks, f)
			}
		case "nested-descendants":
			f := c15FakeBlock(rng, e)
			for i := 0; i < 300; i++ {
				o := c15FakeBlock(rng, e)
				o.BlockType = nom.BlockTypeContractReceive
				o.DescendantBlocks = []*nom.AccountBlock{f}
				f = o
			}
			blocks = []*nom.AccountBlock{f}
		case "contract-send-type":
			f := c15FakeBlock(rng, e)
			f.BlockType = nom.BlockTypeContractSend
			f.Hash = f.ComputeHash()
			blocks = []*nom.AccountBlock{f}
		case "unknown-type":
			f := c15FakeBlock(rng, e)
			f.BlockType = uint64(6 + rng.Intn(1000))
			f.Hash = f.ComputeHash()
			blocks = []*nom.AccountBlock{f}
		case "huge-data":
			f := c15FakeBlock(rng, e)
			f.Data = make([]byte, 1<<20)
			f.Hash = f.ComputeHash()
			blocks = []*nom.AccountBlock{f}
		case "garbage-pubkey":
			f := c15FakeBlock(rng, e)
			f.PublicKey = make([]byte, rng.Intn(100))
			f.Signature = make([]byte, rng.Intn(100))
			blocks = []*nom.AccountBlock{f}
		}
		return set(c15Enc(blocks), "account blocks: "+class)
	case 3:
		h, amt := head, uint64(0)
		switch class {
		case "known-hash-amt0":
		case "known-hash-amt1":
			amt = 1
		case "known-hash-amt512":
			amt = 512
		case "known-hash-amt513":
			amt = 513
		case "known-hash-amt1000":
			amt = 1000
		case "known-hash-amtmax":
			amt = math.MaxUint64
		case "genesis-hash-amtmax":
			h, amt = e.genesis, math.MaxUint64
		case "mid-hash-amt1000":
			h, amt = e.hashes[top/2], 1000
		case "unknown-hash":
			h, amt = c15RandHash(rng), uint64(1+rng.Intn(600))
		case "zero-hash":
			h, amt = types.Hash{}, 1
		case "amount-overflow":
			return set(c15RlpList(c15RlpStr(h[:]), c15RlpStr([]byte{1, 0, 0, 0, 0, 0, 0, 0, 0})), "amount needs 72 bits")
		}
		return set(c15RlpList(c15RlpStr(h[:]), c15RlpUint(amt)), fmt.Sprintf("GetBlockHashes{%s, amount %d}", class, amt))
	case 5:
		var hs []types.Hash
		known := func(n int) []types.Hash {
			l := make([]types.Hash, n)
			for i := range l {
				l[i] = e.hashes[2+(i%int(top-1))]
			}
			return l
		}
		switch class {
		case "one-known":
			hs = known(1)
		case "one-unknown":
			hs = c15RandHashes(rng, 1)
		case "128-known":
			hs = known(128)
		case "129-known":
			hs = known(129)
		case "1000-known":
			hs = known(1000)
		case "1000-unknown":
			hs = c15RandHashes(rng, 1000)
		case "1000-mixed":
			hs = known(1000)
			for i := range hs {
				if rng.Intn(2) == 0 {
					hs[i] = c15RandHash(rng)
				}
			}
		case "dup-1000":
			for i := 0; i < 1000; i++ {
				hs = append(hs, head)
			}
		case "genesis":
			hs = []types.Hash{e.genesis, e.hashes[2]}
		case "short-hash":
			return set(c15RlpList(c15RlpStr(make([]byte, 31))), "31-byte hash")
		}
		return set(c15RlpHashes(hs), "GetBlocks "+class)
	case 6, 7:
		var l []*nom.DetailedMomentum
		one := func(d *nom.DetailedMomentum) { l = []*nom.DetailedMomentum{d} }
		switch class {
		case "known-block":
			one(simnet.CloneDetailed(e.T.Detailed(top - uint64(rng.Intn(20)))))
		case "valid-next":
			e.ahead(2)
			one(simnet.CloneDetailed(e.P.Detailed(top + 1)))
		case "valid-future", "future-valid":
			e.ahead(12)
			one(simnet.CloneDetailed(e.P.Detailed(top + 2 + uint64(rng.Intn(9)))))
		case "zero-momentum":
			one(&nom.DetailedMomentum{Momentum: &nom.Momentum{}, AccountBlocks: nil})
		case "linked-garbage":
			one(c15FakeMomentum(rng, e, top+1, head))
		case "unlinked":
			one(c15FakeMomentum(rng, e, top+1, c15RandHash(rng)))
		case "height-max":
			one(c15FakeMomentum(rng, e, math.MaxUint64, head))
		case "height-zero":
			one(c15FakeMomentum(rng, e, 0, head))
		case "content-without-blocks":
			d := c15FakeMomentum(rng, e, top+1, head)
			for i := 0; i < 1+rng.Intn(5); i++ {
				hdr := c15FakeBlock(rng, e).Header()
				d.Momentum.Content = append(d.Momentum.Content, &hdr)
			}
			d.Momentum.Hash = d.Momentum.ComputeHash()
			one(d)
		case "blocks-without-content":
			d := c15FakeMomentum(rng, e, top+1, head)
			for i := 0; i < 1+rng.Intn(5); i++ {
				d.AccountBlocks = append(d.AccountBlocks, c15FakeBlock(rng, e))
			}
			if len(e.sends) > 0 {
				d.AccountBlocks = append(d.AccountBlocks, simnet.CloneBlock(e.sends[0]))
			}
			one(d)
		case "mutated-valid":
			e.ahead(2)
			d := simnet.CloneDetailed(e.P.Detailed(top + 1))
			switch rng.Intn(4) {
			case 0:
				d.Momentum.Signature[rng.Intn(len(d.Momentum.Signature))] ^= 1
			case 1:
				d.Momentum.ChangesHash[0] ^= 1
			case 2:
				d.Momentum.TimestampUnix += 1
			case 3:
				d.Momentum.Data = []byte("x")
			}
			one(d)
		case "200-blocks":
			for i := 0; i < 200; i++ {
				l = append(l, simnet.CloneDetailed(e.T.Detailed(top-uint64(i))))
			}
		case "huge-data":
			d := c15FakeMomentum(rng, e, top+1, head)
			d.Momentum.Data = make([]byte, 2<<20)
			d.Momentum.Hash = d.Momentum.ComputeHash()
			one(d)
		case "garbage-pubkey":
			d := c15FakeMomentum(rng, e, top+1, head)
			d.Momentum.PublicKey = make([]byte, rng.Intn(70))
			d.Momentum.Signature = make([]byte, rng.Intn(70))
			one(d)
		case "wrong-hash-field":
			d := c15FakeMomentum(rng, e, top+1, head)
			d.Momentum.Hash = c15RandHash(rng)
			one(d)
		}
		if code == 7 {
			if len(l) == 0 {
				return set([]byte{0xc0}, "NewBlock "+class)
			}
			return set(c15Enc(l[0]), "NewBlock "+class)
		}
		return set(c15Enc(l), "Blocks "+class)
	case 8:
		var n, a uint64
		var ns, as string
		if i := bytes.IndexByte([]byte(class), '-'); i > 0 {
			ns, as = class[1:i], class[i+2:]
		}
		switch ns {
		case "0":
			n = 0
		case "1":
			n = 1
		case "mid":
			n = top / 2
		case "near":
			n = top - 10
		case "top":
			n = top
		case "top1":
			n = top + 1
		case "far":
			n = top + 1000 + uint64(rng.Intn(100000))
		case "max":
			n = math.MaxUint64
		}
		switch as {
		case "0":
			a = 0
		case "max":
			a = math.MaxUint64
		default:
			fmt.Sscanf(as, "%d", &a)
		}
		if class == "amount-overflow" {
			return set(c15RlpList(c15RlpUint(top), c15RlpStr([]byte{1, 0, 0, 0, 0, 0, 0, 0, 0})), "amount needs 72 bits")
		}
		return set(c15RlpList(c15RlpUint(n), c15RlpUint(a)), fmt.Sprintf("GetBlockHashesFromNumber{number %d, amount %d} with frontier %d", n, a, top))
	}
	return set(valid, "fallback: valid payload")
}
