// Package fw is the small runtime shared by every check: case lists derived
// from VERIF_SEED, child-process isolation, observation merging, known-finding
// classification, evidence writing and the exit-code discipline of DESIGN §1.4.
package fw

import (
	"bufio"
	"encoding/json"
	"fmt"
	"math/rand"
	"os"
	"os/exec"
	"path/filepath"
	"regexp"
	"runtime"
	"sort"
	"strconv"
	"strings"
	"sync"
	"time"
)

// Check describes one property's machinery.
type Check struct {
	ID    string
	Level string // evidence level: exploration | fault_enumeration
	Rule  string // how cases are generated and what makes one distinct / non-trivial

	// Cases returns the deterministic list of case identifiers for a tier and seed.
	// A case id starting with "race:" is run by the race-detector build.
	Cases func(tier string, seed int64) []string
	// Run executes one case inside a child process.
	Run func(c *C, caseID string)

	// DeathIsViolation: a child that dies (panic on a foreign goroutine, os.Exit
	// from the code under test, runtime fatal error) while running a case is a
	// violation of this property with that case as the witness. When false a
	// dead child is inconclusive.
	DeathIsViolation bool
	// DeathSig builds the violation signature from the tail of the dead child's output.
	DeathSig func(caseID, tail string) string

	Assumptions []string
	// MinDistinct is the coverage floor for distinct_nontrivial (run exits 2 below it).
	MinDistinct int
	// CaseTimeout is the watchdog per child batch (default 10 min quick, 60 min thorough).
	CaseTimeout time.Duration
	// Workers caps parallel children (default: NumCPU).
	Workers int
	// Serial cases are run one child per case (needed when a case os.Exits on purpose).
	OneCasePerChild bool
}

var registry = map[string]*Check{}

func Register(c *Check) { registry[c.ID] = c }
func Lookup(id string) *Check { return registry[id] }
func IDs() []string {
	var ids []string
	for id := range registry {
		ids = append(ids, id)
	}
	sort.Strings(ids)
	return ids
}

// Violation is a witness of a refuting observation.
type Violation struct {
	Property string      `json:"property"`
	Sig      string      `json:"signature"`
	Case     string      `json:"case"`
	Seed     int64       `json:"seed"`
	Tier     string      `json:"tier"`
	Detail   interface{} `json:"detail"`
}

// result is what a child writes when it finishes its shard.
type result struct {
	Evaluations  int64                  `json:"evaluations"`
	Distinct     []string               `json:"distinct"`
	Samples      []interface{}          `json:"samples"`
	Violations   []Violation            `json:"violations"`
	Inconclusive []string               `json:"inconclusive"`
	Counters     map[string]int64       `json:"counters"`
	Sets         map[string][]string    `json:"sets"`
	Notes        map[string]interface{} `json:"notes"`
	Done         bool                   `json:"done"`
}

// C is the per-child context handed to Check.Run.
type C struct {
	ID     string
	Tier   string
	Seed   int64
	OutDir string // /verif/out/<id>
	Shard  int

	mu       sync.Mutex
	res      result
	distinct map[string]struct{}
	sets     map[string]map[string]struct{}
	curCase  string
	caseLog  *os.File
	muted    bool
}

// Muted returns a context with the same seed, tier and scratch space whose verdicts and coverage go nowhere.
// It lets one check drive another check's workload generator while only its own oracle reports.
func (c *C) Muted() *C {
	return &C{ID: c.ID, Tier: c.Tier, Seed: c.Seed, OutDir: c.OutDir, Shard: c.Shard, muted: true,
		res:      result{Counters: map[string]int64{}, Notes: map[string]interface{}{}},
		distinct: map[string]struct{}{}, sets: map[string]map[string]struct{}{}, curCase: c.curCase}
}

func (c *C) Thorough() bool { return c.Tier == "thorough" }

// Rand returns a PRNG determined by the seed and a label (case id, usually).
func (c *C) Rand(label string) *rand.Rand { return rand.New(rand.NewSource(SeedFor(c.Seed, label))) }

func SeedFor(seed int64, label string) int64 {
	h := uint64(1469598103934665603)
	for _, b := range []byte(label) {
		h ^= uint64(b)
		h *= 1099511628211
	}
	return int64(h ^ uint64(seed)*0x9E3779B97F4A7C15)
}

func (c *C) Eval(n int) {
	c.mu.Lock()
	c.res.Evaluations += int64(n)
	c.mu.Unlock()
}

// Distinct records a distinct non-trivial case key (deduplicated across children).
func (c *C) Distinct(key string) {
	c.mu.Lock()
	c.distinct[key] = struct{}{}
	c.mu.Unlock()
}

// Count adds to a named counter shown in evidence.
func (c *C) Count(name string, n int) {
	c.mu.Lock()
	c.res.Counters[name] += int64(n)
	c.mu.Unlock()
}

// SetAdd adds a member to a named set shown (as sorted list + size) in evidence.
func (c *C) SetAdd(set, member string) {
	c.mu.Lock()
	m := c.sets[set]
	if m == nil {
		m = map[string]struct{}{}
		c.sets[set] = m
	}
	if len(m) < 4096 {
		m[member] = struct{}{}
	}
	c.mu.Unlock()
}

func (c *C) Note(k string, v interface{}) {
	c.mu.Lock()
	c.res.Notes[k] = v
	c.mu.Unlock()
}

// Sample keeps up to a few real cases for the evidence file.
func (c *C) Sample(v interface{}) {
	c.mu.Lock()
	if len(c.res.Samples) < 4 {
		c.res.Samples = append(c.res.Samples, v)
	}
	c.mu.Unlock()
}

func (c *C) Violation(sig string, detail interface{}) {
	c.mu.Lock()
	defer c.mu.Unlock()
	if len(c.res.Violations) >= 200 {
		return
	}
	c.res.Violations = append(c.res.Violations, Violation{
		Property: c.ID, Sig: sig, Case: c.curCase, Seed: c.Seed, Tier: c.Tier, Detail: detail,
	})
	c.flushLocked()
}

func (c *C) Violationf(sig string, format string, a ...interface{}) {
	c.Violation(sig, fmt.Sprintf(format, a...))
}

func (c *C) Inconclusive(why string) {
	c.mu.Lock()
	c.res.Inconclusive = append(c.res.Inconclusive, c.curCase+": "+why)
	c.mu.Unlock()
}

// Logf writes a line to the child's log (stderr is captured to a file by the driver).
func (c *C) Logf(format string, a ...interface{}) {
	fmt.Fprintf(os.Stderr, format+"\n", a...)
}

// ScratchDir returns a fresh directory under out/<id>/run-*, removed by the driver at the end.
func (c *C) ScratchDir(label string) string {
	d, err := os.MkdirTemp(filepath.Join(c.OutDir, "scratch"), sanitize(label)+"-")
	if err != nil {
		panic(err)
	}
	return d
}

func sanitize(s string) string {
	return regexp.MustCompile(`[^A-Za-z0-9_.-]+`).ReplaceAllString(s, "_")
}

func (c *C) resultPath() string {
	return filepath.Join(c.OutDir, "child", fmt.Sprintf("result-%d.json", c.Shard))
}

func (c *C) flushLocked() {
	if c.muted {
		return
	}
	c.res.Distinct = c.res.Distinct[:0]
	for k := range c.distinct {
		c.res.Distinct = append(c.res.Distinct, k)
	}
	c.res.Sets = map[string][]string{}
	for name, m := range c.sets {
		for k := range m {
			c.res.Sets[name] = append(c.res.Sets[name], k)
		}
	}
	data, _ := json.Marshal(&c.res)
	tmp := c.resultPath() + ".tmp"
	_ = os.WriteFile(tmp, data, 0o644)
	_ = os.Rename(tmp, c.resultPath())
}

// ---------------------------------------------------------------------------
// child entry point

// ChildMain runs the cases of one shard. args: id tier seed shard skip
// The shard's case list is read from out/<id>/child/list-<shard>.txt.
func ChildMain(args []string) int {
	id, tier := args[0], args[1]
	seed, _ := strconv.ParseInt(args[2], 10, 64)
	shard, _ := strconv.Atoi(args[3])
	skip, _ := strconv.Atoi(args[4])
	chk := Lookup(id)
	if chk == nil {
		fmt.Fprintf(os.Stderr, "unknown check %s\n", id)
		return 3
	}
	out := OutDir(id)
	c := &C{ID: id, Tier: tier, Seed: seed, OutDir: out, Shard: shard,
		distinct: map[string]struct{}{}, sets: map[string]map[string]struct{}{}}
	c.res.Counters = map[string]int64{}
	c.res.Notes = map[string]interface{}{}
	// continue from a previous (dead) child's partial result, if any
	if skip > 0 {
		if data, err := os.ReadFile(c.resultPath()); err == nil {
			var prev result
			if json.Unmarshal(data, &prev) == nil {
				c.res = prev
				c.res.Done = false
				if c.res.Counters == nil {
					c.res.Counters = map[string]int64{}
				}
				if c.res.Notes == nil {
					c.res.Notes = map[string]interface{}{}
				}
				for _, k := range prev.Distinct {
					c.distinct[k] = struct{}{}
				}
				for name, l := range prev.Sets {
					c.sets[name] = map[string]struct{}{}
					for _, k := range l {
						c.sets[name][k] = struct{}{}
					}
				}
			}
		}
	}
	logPath := filepath.Join(out, "child", fmt.Sprintf("cases-%d.log", shard))
	f, err := os.OpenFile(logPath, os.O_CREATE|os.O_WRONLY|os.O_APPEND, 0o644)
	if err != nil {
		fmt.Fprintln(os.Stderr, err)
		return 3
	}
	c.caseLog = f
	var mine []string
	if data, err := os.ReadFile(filepath.Join(out, "child", fmt.Sprintf("list-%d.txt", shard))); err == nil {
		for _, l := range strings.Split(string(data), "\n") {
			if l != "" {
				mine = append(mine, l)
			}
		}
	}
	for i, cs := range mine {
		if i < skip {
			continue
		}
		c.curCase = cs
		fmt.Fprintf(f, "%d %s\n", i, cs)
		_ = f.Sync()
		chk.Run(c, cs)
		c.mu.Lock()
		c.flushLocked()
		c.mu.Unlock()
	}
	c.mu.Lock()
	c.res.Done = true
	c.flushLocked()
	c.mu.Unlock()
	return 0
}

// ---------------------------------------------------------------------------
// driver

func VerifDir() string {
	if d := os.Getenv("VERIF_DIR"); d != "" {
		return d
	}
	return "/verif"
}
func OutDir(id string) string { return filepath.Join(VerifDir(), "out", id) }

type knownFile struct {
	Findings []struct {
		Property  string `json:"property"`
		Signature string `json:"signature"`
		What      string `json:"what"`
	} `json:"findings"`
	Fixed []string `json:"fixed"`
}

func loadKnown() knownFile {
	var k knownFile
	data, err := os.ReadFile(filepath.Join(VerifDir(), "known_findings.json"))
	if err == nil {
		_ = json.Unmarshal(data, &k)
	}
	return k
}

type childRun struct {
	shard   int
	race    bool
	skip    int
	only    string
	logPath string
}

// DriverMain runs a whole check: spawns children, merges, classifies, writes evidence.
// exe / raceExe are the binaries to use for normal and "race:" cases.
func DriverMain(id, tier string, seed int64, exe, raceExe, replay string) int {
	chk := Lookup(id)
	if chk == nil {
		fmt.Fprintf(os.Stderr, "unknown check %s\n", id)
		return 3
	}
	start := time.Now()
	out := OutDir(id)
	_ = os.RemoveAll(filepath.Join(out, "child"))
	_ = os.RemoveAll(filepath.Join(out, "scratch"))
	_ = os.RemoveAll(filepath.Join(out, "race"))
	for _, d := range []string{"child", "scratch", "race"} {
		_ = os.MkdirAll(filepath.Join(out, d), 0o755)
	}
	defer os.RemoveAll(filepath.Join(out, "scratch"))

	var onlyCase string
	if replay != "" {
		data, err := os.ReadFile(replay)
		if err != nil {
			fmt.Fprintln(os.Stderr, err)
			return 3
		}
		var v Violation
		if err := json.Unmarshal(data, &v); err != nil {
			fmt.Fprintln(os.Stderr, err)
			return 3
		}
		onlyCase, seed, tier = v.Case, v.Seed, v.Tier
	}
	old, _ := filepath.Glob(filepath.Join(out, "violation-*.json"))
	for _, p := range old {
		_ = os.Remove(p)
	}

	all := chk.Cases(tier, seed)
	if onlyCase != "" {
		all = []string{onlyCase}
	}
	workers := chk.Workers
	if workers <= 0 {
		workers = runtime.NumCPU()
	}
	if workers > len(all) {
		workers = len(all)
	}
	if workers < 1 {
		workers = 1
	}
	timeout := chk.CaseTimeout
	if timeout == 0 {
		timeout = 10 * time.Minute
		if tier == "thorough" {
			timeout = 90 * time.Minute
		}
	}

	var normal, raced []string
	for _, cs := range all {
		if strings.HasPrefix(cs, "race:") {
			raced = append(raced, cs)
		} else {
			normal = append(normal, cs)
		}
	}
	var deaths []Violation
	var inconclusive []string
	var mu sync.Mutex
	var wg sync.WaitGroup

	runShard := func(shard int, race bool, list []string) {
		defer wg.Done()
		_ = os.WriteFile(filepath.Join(out, "child", fmt.Sprintf("list-%d.txt", shard)), []byte(strings.Join(list, "\n")+"\n"), 0o644)
		skip := 0
		for attempt := 0; attempt < 50; attempt++ {
			bin := exe
			if race {
				bin = raceExe
			}
			logPath := filepath.Join(out, "child", fmt.Sprintf("out-%d-%d.log", shard, attempt))
			lf, _ := os.Create(logPath)
			args := []string{"child", id, tier, strconv.FormatInt(seed, 10), strconv.Itoa(shard), strconv.Itoa(skip)}
			cmd := exec.Command(bin, args...)
			cmd.Stdout = lf
			cmd.Stderr = lf
			cmd.Env = append(os.Environ(), "GOTRACEBACK=all")
			if race {
				cmd.Env = append(cmd.Env, "GORACE=halt_on_error=0 log_path="+filepath.Join(out, "race", fmt.Sprintf("race-%d", shard)))
			}
			done := make(chan error, 1)
			if err := cmd.Start(); err != nil {
				lf.Close()
				mu.Lock()
				inconclusive = append(inconclusive, fmt.Sprintf("shard %d: cannot start child: %v", shard, err))
				mu.Unlock()
				return
			}
			go func() { done <- cmd.Wait() }()
			var err error
			timedOut := false
			select {
			case err = <-done:
			case <-time.After(timeout):
				timedOut = true
				_ = cmd.Process.Signal(os.Interrupt)
				time.Sleep(200 * time.Millisecond)
				_ = cmd.Process.Kill()
				err = <-done
			}
			lf.Close()
			if err == nil {
				return
			}
			// child died: find the case it was running
			idx, cs := lastCase(filepath.Join(out, "child", fmt.Sprintf("cases-%d.log", shard)))
			tail := tailFile(logPath, 6000)
			mu.Lock()
			if timedOut {
				inconclusive = append(inconclusive, fmt.Sprintf("case %s: watchdog (%v) fired", cs, timeout))
			} else if chk.DeathIsViolation && cs != "" {
				sig := "child-death"
				if chk.DeathSig != nil {
					sig = chk.DeathSig(cs, tail)
				}
				deaths = append(deaths, Violation{Property: id, Sig: sig, Case: cs, Seed: seed, Tier: tier,
					Detail: map[string]interface{}{"exit": err.Error(), "output_tail": tail}})
			} else {
				inconclusive = append(inconclusive, fmt.Sprintf("case %s: child died (%v): %s", cs, err, lastLines(tail, 3)))
			}
			mu.Unlock()
			if idx < 0 {
				return
			}
			skip = idx + 1
			if skip >= len(list) {
				// mark done: nothing left
				return
			}
		}
	}

	split := func(list []string, race bool, base int) int {
		if len(list) == 0 {
			return 0
		}
		n := workers
		if n > len(list) {
			n = len(list)
		}
		if chk.OneCasePerChild {
			n = len(list)
		}
		buckets := make([][]string, n)
		for i, cs := range list {
			buckets[i%n] = append(buckets[i%n], cs)
		}
		sem := make(chan struct{}, workers)
		for i := range buckets {
			wg.Add(1)
			i := i
			go func() {
				sem <- struct{}{}
				runShard(base+i, race, buckets[i])
				<-sem
			}()
		}
		return n
	}
	nNormal := split(normal, false, 0)
	wg.Wait()
	split(raced, true, nNormal)
	wg.Wait()

	// merge
	merged := result{Counters: map[string]int64{}, Notes: map[string]interface{}{}}
	distinct := map[string]struct{}{}
	sets := map[string]map[string]struct{}{}
	files, _ := filepath.Glob(filepath.Join(out, "child", "result-*.json"))
	sort.Strings(files)
	for _, p := range files {
		data, err := os.ReadFile(p)
		if err != nil {
			continue
		}
		var r result
		if json.Unmarshal(data, &r) != nil {
			continue
		}
		merged.Evaluations += r.Evaluations
		for _, k := range r.Distinct {
			distinct[k] = struct{}{}
		}
		for _, s := range r.Samples {
			if len(merged.Samples) < 6 {
				merged.Samples = append(merged.Samples, s)
			}
		}
		merged.Violations = append(merged.Violations, r.Violations...)
		merged.Inconclusive = append(merged.Inconclusive, r.Inconclusive...)
		for k, v := range r.Counters {
			merged.Counters[k] += v
		}
		for name, l := range r.Sets {
			if sets[name] == nil {
				sets[name] = map[string]struct{}{}
			}
			for _, k := range l {
				sets[name][k] = struct{}{}
			}
		}
		for k, v := range r.Notes {
			merged.Notes[k] = v
		}
	}
	merged.Violations = append(merged.Violations, deaths...)
	merged.Inconclusive = append(merged.Inconclusive, inconclusive...)

	// race reports
	raceReports := collectRaceReports(filepath.Join(out, "race"))
	for sig, text := range raceReports {
		merged.Violations = append(merged.Violations, Violation{Property: id, Sig: "data-race " + sig, Case: "race", Seed: seed, Tier: tier, Detail: text})
	}

	// classify
	known := loadKnown()
	knownSeen := map[string]string{}
	var real []Violation
	for _, v := range merged.Violations {
		matched := false
		for _, k := range known.Findings {
			if k.Property == id && k.Signature == v.Sig {
				knownSeen[k.Signature] = k.What
				matched = true
				break
			}
		}
		if !matched {
			real = append(real, v)
		}
	}
	exit := 0
	var knownSigs []string
	for sig := range knownSeen {
		knownSigs = append(knownSigs, sig)
	}
	sort.Strings(knownSigs)
	for _, sig := range knownSigs {
		fmt.Printf("KNOWN-FINDING: property=%s %s [%s]\n", id, knownSeen[sig], sig)
	}
	// listed findings this run did not reach (other tier, other seed): said so, never counted as observed
	for _, k := range known.Findings {
		if k.Property == id {
			if _, seen := knownSeen[k.Signature]; !seen {
				fmt.Printf("KNOWN-FINDING-NOT-REACHED-BY-THIS-RUN: property=%s [%s]\n", id, k.Signature)
			}
		}
	}
	seenSig := map[string]int{}
	nfile := 0
	for _, v := range real {
		seenSig[v.Sig]++
		if seenSig[v.Sig] > 3 || nfile >= 40 {
			continue
		}
		p := filepath.Join(out, fmt.Sprintf("violation-%03d.json", nfile))
		nfile++
		data, _ := json.MarshalIndent(v, "", " ")
		_ = os.WriteFile(p, data, 0o644)
		fmt.Printf("VIOLATION property=%s replay=%s\n", id, p)
		fmt.Printf("  signature: %s\n  case: %s\n", v.Sig, v.Case)
		exit = 1
	}
	for _, s := range merged.Inconclusive {
		fmt.Printf("INCONCLUSIVE %s\n", s)
	}

	nDistinct := len(distinct)
	total := len(all)
	if exit == 0 && replay == "" {
		if nDistinct < chk.MinDistinct || nDistinct < 2 {
			fmt.Printf("COVERAGE-FLOOR-MISSED distinct=%d floor=%d\n", nDistinct, chk.MinDistinct)
			exit = 2
		}
		// inconclusive cases are reported (stdout + evidence) and never counted as held; the run as a whole is
		// only refused when a quarter of it was inconclusive (the machine is not doing its job)
		if len(merged.Inconclusive)*4 > total && len(merged.Inconclusive) > 0 {
			fmt.Printf("TOO-MANY-INCONCLUSIVE %d of %d cases\n", len(merged.Inconclusive), total)
			exit = 2
		}
	}

	// evidence
	cov := map[string]interface{}{
		"evaluations":         merged.Evaluations,
		"distinct_nontrivial": nDistinct,
		"rule":                chk.Rule,
		"samples":             merged.Samples,
		"cases":               total,
		"inconclusive":        len(merged.Inconclusive),
		"known_findings_seen": knownSigs,
		"race_reports":        len(raceReports),
		"counters":            merged.Counters,
	}
	if len(merged.Samples) == 0 {
		cov["samples"] = []interface{}{"(no sample recorded)"}
	}
	for name, m := range sets {
		var l []string
		for k := range m {
			l = append(l, k)
		}
		sort.Strings(l)
		cov["set_"+name+"_size"] = len(l)
		if len(l) > 80 {
			l = l[:80]
		}
		cov["set_"+name] = l
	}
	for k, v := range merged.Notes {
		cov[k] = v
	}
	if len(merged.Inconclusive) > 0 {
		l := merged.Inconclusive
		if len(l) > 10 {
			l = l[:10]
		}
		cov["inconclusive_cases"] = l
	}
	ev := map[string]interface{}{
		"property_id": id,
		"tier":        tier,
		"seed":        seed,
		"level":       chk.Level,
		"coverage":    cov,
		"assumptions": chk.Assumptions,
		"wall_s":      time.Since(start).Seconds(),
		"violations":  len(real),
	}
	if replay == "" {
		data, _ := json.MarshalIndent(ev, "", " ")
		_ = os.MkdirAll(filepath.Join(VerifDir(), "evidence"), 0o755)
		_ = os.WriteFile(filepath.Join(VerifDir(), "evidence", id+".json"), data, 0o644)
	}
	fmt.Printf("%s tier=%s seed=%d cases=%d evaluations=%d distinct=%d violations=%d known=%d inconclusive=%d wall=%.1fs exit=%d\n",
		id, tier, seed, total, merged.Evaluations, nDistinct, len(real), len(knownSigs), len(merged.Inconclusive), time.Since(start).Seconds(), exit)
	return exit
}

func lastCase(path string) (int, string) {
	f, err := os.Open(path)
	if err != nil {
		return -1, ""
	}
	defer f.Close()
	idx, cs := -1, ""
	sc := bufio.NewScanner(f)
	sc.Buffer(make([]byte, 1<<20), 1<<20)
	for sc.Scan() {
		line := sc.Text()
		sp := strings.IndexByte(line, ' ')
		if sp < 0 {
			continue
		}
		if n, err := strconv.Atoi(line[:sp]); err == nil {
			idx, cs = n, line[sp+1:]
		}
	}
	return idx, cs
}

// tailFile returns an excerpt of a dead child's output: the head of the first panic / fatal error
// (with GOTRACEBACK=all the tail alone is usually some unrelated goroutine) followed by the tail.
func tailFile(path string, n int) string {
	data, err := os.ReadFile(path)
	if err != nil {
		return ""
	}
	s := string(data)
	head := ""
	i := strings.Index(s, "\npanic: ")
	if j := strings.Index(s, "\nfatal error: "); j >= 0 && (i < 0 || j < i) {
		i = j
	}
	if i >= 0 {
		head = s[i:]
		if len(head) > n/2 {
			head = head[:n/2]
		}
		head += "\n[...]\n"
	}
	if len(s) > n/2 {
		s = s[len(s)-n/2:]
	}
	return head + s
}

func lastLines(s string, n int) string {
	lines := strings.Split(strings.TrimSpace(s), "\n")
	if len(lines) > n {
		lines = lines[len(lines)-n:]
	}
	return strings.Join(lines, " | ")
}

var lineNo = regexp.MustCompile(`:\d+( \+0x[0-9a-f]+)?`)

// collectRaceReports reads GORACE log files and deduplicates reports by the
// pair of top non-runtime frames with line numbers stripped.
func collectRaceReports(dir string) map[string]string {
	out := map[string]string{}
	files, _ := filepath.Glob(filepath.Join(dir, "race-*"))
	for _, p := range files {
		data, err := os.ReadFile(p)
		if err != nil {
			continue
		}
		blocks := strings.Split(string(data), "==================")
		for _, b := range blocks {
			if !strings.Contains(b, "WARNING: DATA RACE") {
				continue
			}
			var frames []string
			lines := strings.Split(b, "\n")
			for i, l := range lines {
				t := strings.TrimSpace(l)
				if strings.HasPrefix(t, "Write at") || strings.HasPrefix(t, "Read at") || strings.HasPrefix(t, "Previous write at") || strings.HasPrefix(t, "Previous read at") {
					// first function frame after this header
					for j := i + 1; j < len(lines) && j < i+12; j++ {
						fn := strings.TrimSpace(lines[j])
						if fn == "" {
							break
						}
						if strings.HasPrefix(fn, "/") || strings.HasPrefix(fn, "runtime.") || strings.HasPrefix(fn, "sync") {
							continue
						}
						if k := strings.Index(fn, "("); k > 0 {
							fn = fn[:k]
						}
						frames = append(frames, fn)
						break
					}
				}
			}
			sort.Strings(frames)
			sig := lineNo.ReplaceAllString(strings.Join(frames, " <-> "), "")
			if _, ok := out[sig]; !ok {
				if len(b) > 5000 {
					b = b[:5000]
				}
				out[sig] = b
			}
		}
	}
	return out
}
