// Package scan reads a ledger as DATA: it iterates a store view key by key and decodes
// entries by key prefix, without calling the store accessors the properties are about.
package scan

import (
	"encoding/binary"
	"fmt"
	"math/big"
	"sort"

	"github.com/zenon-network/go-zenon/chain/nom"
	"github.com/zenon-network/go-zenon/common/db"
	"github.com/zenon-network/go-zenon/common/types"
)

// key prefixes (momentum store level)
const (
	pfxMomentumByHeight = 2
	pfxAccountStore     = 3
	pfxMailbox          = 4
	pfxConfHeight       = 5
)

// account store level
const (
	accBlockByHeight = 2
	accBalance       = 3
	accStorage       = 4
	accChainPlasma   = 5
	accReceived      = 6
	accSequencerLast = 7
)

type Account struct {
	Address   types.Address
	Blocks    []*nom.AccountBlock // by height, index 0 = height 1 (confirmed, then pooled)
	Confirmed int                 // number of confirmed blocks
	Balances  map[types.ZenonTokenStandard]*big.Int
	Storage   map[string][]byte
	Received  map[types.Hash]bool
	SeqLast   uint64
	Plasma    *big.Int
}

type Ledger struct {
	Momentums  []*nom.Momentum // index 0 = height 1
	Accounts   map[types.Address]*Account
	ConfHeight map[types.Hash]uint64
	// Pending: per receiver, hashes marked pending in the mailbox
	MailboxPending map[types.Address]map[types.Hash]bool
	MailboxSeq     map[types.Address][]types.AccountHeader
}

func newAccount(a types.Address) *Account {
	return &Account{Address: a, Balances: map[types.ZenonTokenStandard]*big.Int{}, Storage: map[string][]byte{}, Received: map[types.Hash]bool{}, Plasma: big.NewInt(0)}
}

// Scan decodes a momentum-level view (frontier or historical).
func Scan(view db.DB) (*Ledger, error) {
	l := &Ledger{Accounts: map[types.Address]*Account{}, ConfHeight: map[types.Hash]uint64{},
		MailboxPending: map[types.Address]map[types.Hash]bool{}, MailboxSeq: map[types.Address][]types.AccountHeader{}}
	it := view.NewIterator(nil)
	defer it.Release()
	blocksByHeight := map[types.Address]map[uint64]*nom.AccountBlock{}
	moms := map[uint64]*nom.Momentum{}
	seqEntries := map[types.Address]map[uint64]types.AccountHeader{}
	for it.Next() {
		v := it.Value()
		if v == nil {
			continue
		}
		k := it.Key()
		if len(k) == 0 {
			continue
		}
		switch k[0] {
		case pfxMomentumByHeight:
			if len(k) != 9 {
				continue
			}
			m, err := nom.DeserializeMomentum(v)
			if err != nil {
				return nil, fmt.Errorf("momentum at %x: %v", k, err)
			}
			moms[binary.BigEndian.Uint64(k[1:])] = m
		case pfxConfHeight:
			if len(k) == 33 && len(v) == 8 {
				var h types.Hash
				copy(h[:], k[1:])
				l.ConfHeight[h] = binary.BigEndian.Uint64(v)
			}
		case pfxAccountStore:
			if len(k) < 22 {
				continue
			}
			var a types.Address
			copy(a[:], k[1:21])
			acc := l.Accounts[a]
			if acc == nil {
				acc = newAccount(a)
				l.Accounts[a] = acc
			}
			if err := decodeAccountKey(acc, blocksByHeight, k[21:], v); err != nil {
				return nil, err
			}
		case pfxMailbox:
			if len(k) < 22 {
				continue
			}
			var a types.Address
			copy(a[:], k[1:21])
			sub := k[21:]
			switch sub[0] {
			case 5: // pending
				if len(sub) == 33 {
					var h types.Hash
					copy(h[:], sub[1:])
					if l.MailboxPending[a] == nil {
						l.MailboxPending[a] = map[types.Hash]bool{}
					}
					l.MailboxPending[a][h] = true
				}
			case 8: // sequencer header by height
				if len(sub) == 9 {
					hd, err := types.DeserializeAccountHeader(v)
					if err == nil {
						if seqEntries[a] == nil {
							seqEntries[a] = map[uint64]types.AccountHeader{}
						}
						seqEntries[a][binary.BigEndian.Uint64(sub[1:])] = *hd
					}
				}
			}
		}
	}
	if err := it.Error(); err != nil {
		return nil, err
	}
	for h := uint64(1); ; h++ {
		m, ok := moms[h]
		if !ok {
			break
		}
		l.Momentums = append(l.Momentums, m)
	}
	if len(l.Momentums) != len(moms) {
		return nil, fmt.Errorf("momentum heights are not contiguous: %d of %d", len(l.Momentums), len(moms))
	}
	for a, m := range blocksByHeight {
		acc := l.Accounts[a]
		for h := uint64(1); ; h++ {
			b, ok := m[h]
			if !ok {
				break
			}
			acc.Blocks = append(acc.Blocks, b)
		}
		if len(acc.Blocks) != len(m) {
			return nil, fmt.Errorf("account %s: block heights are not contiguous", a)
		}
		acc.Confirmed = len(acc.Blocks)
	}
	for a, m := range seqEntries {
		for i := uint64(1); ; i++ {
			hd, ok := m[i]
			if !ok {
				break
			}
			l.MailboxSeq[a] = append(l.MailboxSeq[a], hd)
		}
	}
	return l, nil
}

func decodeAccountKey(acc *Account, blocksByHeight map[types.Address]map[uint64]*nom.AccountBlock, k, v []byte) error {
	if len(k) == 0 {
		return nil
	}
	switch k[0] {
	case accBlockByHeight:
		if len(k) != 9 {
			return nil
		}
		b, err := nom.DeserializeAccountBlock(v)
		if err != nil {
			return fmt.Errorf("account block of %s at %x: %v", acc.Address, k, err)
		}
		if blocksByHeight[acc.Address] == nil {
			blocksByHeight[acc.Address] = map[uint64]*nom.AccountBlock{}
		}
		blocksByHeight[acc.Address][binary.BigEndian.Uint64(k[1:])] = b
	case accBalance:
		if len(k) == 1+types.ZenonTokenStandardSize {
			var z types.ZenonTokenStandard
			copy(z[:], k[1:])
			acc.Balances[z] = new(big.Int).SetBytes(v)
		}
	case accStorage:
		acc.Storage[string(k[1:])] = append([]byte{}, v...)
	case accChainPlasma:
		acc.Plasma = new(big.Int).SetBytes(v)
	case accReceived:
		if len(k) == 33 {
			var h types.Hash
			copy(h[:], k[1:])
			acc.Received[h] = true
		}
	case accSequencerLast:
		if len(v) == 8 {
			acc.SeqLast = binary.BigEndian.Uint64(v)
		}
	}
	return nil
}

// Iterable is anything that can list its keys (a db.DB, or an account store whose DB methods are promoted).
type Iterable interface {
	NewIterator(prefix []byte) db.StorageIterator
}

// OverlayPool replaces the account state of addr by the content of its pool-frontier view
// (an account-level view: keys without the momentum-level prefix).
func (l *Ledger) OverlayPool(addr types.Address, view Iterable) error {
	acc := newAccount(addr)
	confirmed := 0
	if old := l.Accounts[addr]; old != nil {
		confirmed = old.Confirmed
	}
	blocksByHeight := map[types.Address]map[uint64]*nom.AccountBlock{}
	it := view.NewIterator(nil)
	defer it.Release()
	for it.Next() {
		v := it.Value()
		if v == nil {
			continue
		}
		if err := decodeAccountKey(acc, blocksByHeight, it.Key(), v); err != nil {
			return err
		}
	}
	if err := it.Error(); err != nil {
		return err
	}
	m := blocksByHeight[addr]
	for h := uint64(1); ; h++ {
		b, ok := m[h]
		if !ok {
			break
		}
		acc.Blocks = append(acc.Blocks, b)
	}
	if len(acc.Blocks) != len(m) {
		return fmt.Errorf("account %s (pool): block heights are not contiguous", addr)
	}
	acc.Confirmed = confirmed
	l.Accounts[addr] = acc
	return nil
}

// AllBlocks returns every block of every account chain, descendants expanded (parent receive last, as stored).
func (l *Ledger) AllBlocks() []*nom.AccountBlock {
	var out []*nom.AccountBlock
	addrs := l.Addresses()
	for _, a := range addrs {
		out = append(out, l.Accounts[a].Blocks...)
	}
	return out
}

func (l *Ledger) Addresses() []types.Address {
	var addrs []types.Address
	for a := range l.Accounts {
		addrs = append(addrs, a)
	}
	sort.Slice(addrs, func(i, j int) bool { return string(addrs[i][:]) < string(addrs[j][:]) })
	return addrs
}

// BlockByHash indexes every stored block (contract-send descendants are stored as their own chain entries).
func (l *Ledger) BlockByHash() map[types.Hash]*nom.AccountBlock {
	m := map[types.Hash]*nom.AccountBlock{}
	for _, acc := range l.Accounts {
		for _, b := range acc.Blocks {
			m[b.Hash] = b
		}
	}
	return m
}
