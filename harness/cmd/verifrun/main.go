// verifrun is the runner binary of every check. Usage:
//   verifrun run <ID> --tier quick|thorough [--seed N] [--race-exe path] [--replay file]
//   verifrun child <ID> <tier> <seed> <shard> <skip>     (internal)
package main

import (
	"flag"
	"fmt"
	"os"
	"strconv"

	_ "verif/harness/checks"
	"verif/harness/fw"
)

func main() {
	if len(os.Args) < 3 {
		fmt.Fprintln(os.Stderr, "usage: verifrun run <ID> [--tier T] [--seed N] | verifrun list")
		os.Exit(3)
	}
	switch os.Args[1] {
	case "child":
		os.Exit(fw.ChildMain(os.Args[2:]))
	case "needsrace":
		chk := fw.Lookup(os.Args[2])
		tier := "quick"
		if len(os.Args) > 3 {
			tier = os.Args[3]
		}
		if chk != nil {
			for _, cs := range chk.Cases(tier, 1) {
				if len(cs) > 5 && cs[:5] == "race:" {
					fmt.Println("yes")
					return
				}
			}
		}
		fmt.Println("no")
	case "list":
		for _, id := range fw.IDs() {
			fmt.Println(id)
		}
	case "run":
		id := os.Args[2]
		fs := flag.NewFlagSet("run", flag.ExitOnError)
		tier := fs.String("tier", envOr("VERIF_TIER", "quick"), "quick|thorough")
		seedStr := fs.String("seed", envOr("VERIF_SEED", "1"), "seed")
		raceExe := fs.String("race-exe", "", "race-detector build of this binary")
		replay := fs.String("replay", "", "violation file to replay")
		_ = fs.Parse(os.Args[3:])
		seed, err := strconv.ParseInt(*seedStr, 10, 64)
		if err != nil {
			seed = fw.SeedFor(0, *seedStr)
		}
		exe, _ := os.Executable()
		if *raceExe == "" {
			*raceExe = exe
		}
		os.Exit(fw.DriverMain(id, *tier, seed, exe, *raceExe, *replay))
	default:
		fmt.Fprintln(os.Stderr, "unknown command")
		os.Exit(3)
	}
}

func envOr(k, d string) string {
	if v := os.Getenv(k); v != "" {
		return v
	}
	return d
}
