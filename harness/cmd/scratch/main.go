package main

import (
	"fmt"
	"math/big"
	"os"
	"time"

	"github.com/inconshreveable/log15"
	"github.com/zenon-network/go-zenon/common"
	g "github.com/zenon-network/go-zenon/chain/genesis/mock"
	"github.com/zenon-network/go-zenon/common/types"
	"github.com/zenon-network/go-zenon/consensus"
	"github.com/zenon-network/go-zenon/vm/constants"
	"github.com/zenon-network/go-zenon/vm/embedded/definition"

	"github.com/zenon-network/go-zenon/wallet"
	"github.com/zenon-network/go-zenon/chain/nom"
	"github.com/zenon-network/go-zenon/common/db"
	"verif/harness/simnet"
)

func main() {
	consensus.EpochDuration = 10 * time.Minute
	simnet.Setup()
	common.PillarLogger.SetHandler(log15.LvlFilterHandler(log15.LvlInfo, log15.StderrHandler))
	base, _ := os.MkdirTemp("", "scratch")
	defer os.RemoveAll(base)
	A := simnet.Open("A", base+"/A", simnet.MockGenesis(), g.PillarKeys)
	A.MustProduce(280)
	B := simnet.Open("B", base+"/B", simnet.MockGenesis(), g.PillarKeys)
	fmt.Println(B.SyncFrom(A, 50))
	S := simnet.Open("S", base+"/S", simnet.MockGenesis(), nil)
	fmt.Println(S.SyncFrom(A, 50))
	fp := A.Height()
	_, err := A.Send(g.Pillar7, types.SentinelContract, types.QsrTokenStandard, new(big.Int).Set(constants.SentinelQsrDepositAmount), definition.ABISentinel.PackMethodPanic(definition.DepositQsrMethodName))
	fmt.Println("deposit", err)
	A.MustProduce(3)
	_, err = A.Send(g.Pillar7, types.SentinelContract, types.ZnnTokenStandard, new(big.Int).Set(constants.SentinelZnnRegisterAmount), definition.ABISentinel.PackMethodPanic(definition.RegisterSentinelMethodName))
	fmt.Println("register", err)
	A.MustProduce(5)
	st := A.Chain.GetFrontierMomentumStore()
	fmt.Println("sentinel on A:", definition.GetSentinelInfoByOwner(st.GetAccountStore(types.SentinelContract).Storage(), g.Pillar7.Address) != nil)
	fmt.Println(S.SyncFrom(A, 50))
	B.MustProduce(12)
	i, err := S.InsertChain(simnet.CloneBatch(B.Range(fp+1, B.Height())))
	fmt.Println("switch", i, err, S.Height(), B.Height())
	B.OnBlock = func(b *nom.AccountBlock, _ db.Patch, err error) {
		fmt.Println("ONBLOCK", b.Address, b.Height, b.BlockType, "err:", err)
	}
	B.MustProduce(40)
	fmt.Println("B height", B.Height())
	for _, kp := range []*wallet.KeyPair{g.Pillar1, g.Pillar2, g.Pillar3} {
		as := B.Chain.GetFrontierMomentumStore().GetAccountStore(kp.Address)
		f, _ := as.Frontier()
		for h := uint64(1); f != nil && h <= f.Height; h++ {
			b, _ := as.ByHeight(h)
			ch, _ := B.Chain.GetFrontierMomentumStore().GetBlockConfirmationHeight(b.Hash)
			fmt.Println(kp.Address, h, b.BlockType, b.ToAddress, "confirmed at", ch)
		}
	}
	for _, b := range B.Chain.GetAllUncommittedAccountBlocks() {
		fmt.Println("POOL", b.Address, b.Height, b.BlockType, len(b.DescendantBlocks))
	}
	for _, a := range types.EmbeddedContracts {
		f, _ := B.Chain.GetFrontierMomentumStore().GetAccountStore(a).Frontier()
		fmt.Println(a, f.Height)
	}
	bs := B.Chain.GetFrontierMomentumStore().GetAccountStore(types.SentinelContract)
	f, _ := bs.Frontier()
	fmt.Println("sentinel chain height on B", f.Height)
	le, _ := definition.GetLastEpochUpdate(bs.Storage())
	fmt.Println("last epoch update sentinel", le.LastEpoch)
	fmt.Println(S.SyncFrom(B, 10))
	it := S.Chain.GetFrontierMomentumStore().GetAccountStore(types.SentinelContract).Storage().NewIterator([]byte{0})
	for it.Next() {
		fmt.Printf("sentinel storage on S: %x -> %x (nil=%v)\n", it.Key(), it.Value(), it.Value() == nil)
	}
}
