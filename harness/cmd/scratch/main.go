package main

import (
	"fmt"
	"math/big"
	"os"

	g "github.com/zenon-network/go-zenon/chain/genesis/mock"
	"github.com/zenon-network/go-zenon/chain/nom"
	"github.com/zenon-network/go-zenon/common/types"

	"verif/harness/simnet"
)

func main() {
	base, _ := os.MkdirTemp("", "scratch")
	defer os.RemoveAll(base)
	A := simnet.Open("A", base+"/A", simnet.MockGenesis(), g.PillarKeys)
	A.MustProduce(5)
	S := simnet.Open("S", base+"/S", simnet.MockGenesis(), nil)
	fmt.Println(S.SyncFrom(A, 50))
	tx, err := A.Generate(&nom.AccountBlock{BlockType: nom.BlockTypeUserSend, Address: g.User1.Address, ToAddress: g.User2.Address, TokenStandard: types.ZnnTokenStandard, Amount: big.NewInt(5)}, g.User1)
	fmt.Println("gen", err)
	b := simnet.CloneBlock(tx.Block)
	b.Data = append(b.Data, 1)
	fmt.Println("hash ok:", b.ComputeHash() == b.Hash)
	_, err = S.Sup.ApplyBlock(b)
	fmt.Println("apply mutated:", err)
	b2 := simnet.CloneBlock(tx.Block)
	b2.Amount = big.NewInt(6)
	_, err = S.Sup.ApplyBlock(b2)
	fmt.Println("apply mutated amount:", err)
}
